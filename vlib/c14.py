"""C14: the connectivity filter only discards genuinely disconnected programs."""
import itertools
import random
from . import core
from .common import diff_streams

LEVEL = "proof"


def table(prog):
    rows = [r.split(" ") for r in prog.split("  ")]
    return rows


def strongly_connected(prog):
    """transition graph on the rows of the text: edge q -> q' iff some defined instruction of row q
    goes to q'.  Standard strong connectivity (every state reaches every state)."""
    rows = table(prog)
    n = len(rows)
    reach = [[i == j for j in range(n)] for i in range(n)]
    for q, row in enumerate(rows):
        for ins in row:
            if ins != "..." and ord(ins[-1]) - 65 < n:
                reach[q][ord(ins[-1]) - 65] = True
    for k in range(n):
        for i in range(n):
            if reach[i][k]:
                for j in range(n):
                    if reach[k][j]:
                        reach[i][j] = True
    return all(all(r) for r in reach)


def graph_prog(n, outs):
    """program with n states whose state q has exactly the out-edges outs[q] (a tuple of targets);
    colours = max out-degree (>= 1); unused slots undefined"""
    colors = max(1, max(len(o) for o in outs))
    rows = []
    for q in range(n):
        row = [core.instr_str(1, 1, t) for t in outs[q]] + ["..."] * (colors - len(outs[q]))
        rows.append(row)
    return core.prog_text(rows)


def all_graphs(n):
    subsets = []
    for k in range(n + 1):
        subsets += list(itertools.combinations(range(n), k))
    for outs in itertools.product(subsets, repeat=n):
        yield graph_prog(n, outs)


def tree_leaves(tier, seed):
    """leaves of the real tree generator (wrappers::tree_progs through the harness)"""
    specs = [(2, 2, 1, 20), (2, 2, 0, 20), (3, 2, 1, 20), (3, 2, 0, 20), (2, 3, 1, 20), (2, 3, 0, 12), (4, 2, 1, 6)]
    if tier == "thorough":
        specs += [(4, 2, 1, 25), (2, 4, 1, 25), (3, 3, 1, 3)]
    lines = [f"treelist {s} {c} {h} {st}" for s, c, h, st in specs]
    outs = core.run_harness(lines)
    res = []
    for (s, c, h, st), o in zip(specs, outs):
        if o in ("BAD-OP", "PANIC", "limit:overflow"):
            raise RuntimeError(f"treelist: {o}")
        res += [(s, p) for p in o.split(";") if p]
    return res


def check(rep, tier, seed, replay):
    rng = random.Random(seed * 7919 + 14)
    cases = []          # (states, prog, is_tree_leaf)
    for n in (1, 2, 3):
        cases += [(n, p, False) for p in all_graphs(n)]
    g4 = list(all_graphs(4))
    if tier != "thorough":
        g4 = rng.sample(g4, 8000)
    cases += [(4, p, False) for p in g4]
    for _ in range(40000 if tier == "thorough" else 6000):
        n = rng.choice([5, 6])
        outs = tuple(tuple(sorted(rng.sample(range(n), rng.choice([0, 1, 1, 2, 2, 3])))) for _ in range(n))
        cases.append((n, graph_prog(n, outs), False))
    for _ in range(20000 if tier == "thorough" else 4000):
        s, c = rng.choice(core.SIZES[:-1])
        cases.append((s, core.rand_prog(rng, s, c, p_undef=rng.choice([0.0, 0.2, 0.5])), False))
    n_graph = len(cases)
    leaves = tree_leaves(tier, seed)
    cases += [(s, p, True) for s, p in leaves]
    lines = core.corpus_lines("C14") + [f"connected {n} | {p}" for n, p, _ in cases]
    ncorp = len(lines) - len(cases)
    impl = core.run_harness(lines)
    model = core.run_driver(lines)
    mism = diff_streams(rep, lines, impl, model)
    kinds = {}
    distinct = set()
    for (n, p, leaf), line, out in zip(cases, lines[ncorp:], impl[ncorp:]):
        kinds[out] = kinds.get(out, 0) + 1
        if out not in ("true", "false"):
            rep.violation("oracle", {"case": line, "impl": out, "why": "is_connected panicked on a well-formed program"})
            continue
        sc = strongly_connected(p)
        if out == "false" and sc and n >= 2:
            rep.violation("oracle", {"case": line, "impl": out, "why": "answered false but the transition graph is strongly connected"})
        elif leaf and out == "true" and not sc:
            rep.violation("oracle", {"case": line, "impl": out, "why": "tree-generated program answered true but its graph is not strongly connected"})
        else:
            distinct.add((p, out))
    for m in mism[:100]:
        rep.violation("correspondence", m, found_input=False)
    rep.add_counts(len(lines), len(distinct))
    rep.cov["rule"] = ("transition graphs as programs: every edge set on 1..3 states, " + ("every" if tier == "thorough" else "a seeded sample of the")
                       + " edge set(s) on 4 states, seeded random graphs on 5-6 states, seeded random tables up to 6x2/4x3/2x6; tree leaves "
                       "(real tree generator, through the harness) 2x2, 3x2, 2x3 (both halt flags), 4x2" + (", 2x4, 3x3" if tier == "thorough" else "")
                       + ". Oracle: transitive closure in the orchestrator: 'false' => not strongly connected (for one state the answer is always false: "
                       "the single state has no way out, the property's own gloss); for tree leaves 'true' <=> strongly connected. "
                       "Distinct non-trivial = distinct (program, answer) judged true by the oracle.")
    rep.cov["samples"] = [lines[ncorp], lines[ncorp + n_graph // 2], lines[-1]]
    rep.cov["answer_kinds"] = kinds
    rep.cov["graph_cases"] = n_graph
    rep.cov["tree_leaves"] = len(leaves)
    rep.cov["correspondence_mismatches"] = len(mism)
    from . import proofs
    proofs.attach(rep, "C14")
