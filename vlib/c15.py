"""C15: raising a limit never changes an answer already given."""
import random
from . import core
from .common import diff_streams
from .deciders import GOALS

LEVEL = "proof"

LIMIT_ANSWER = {"reason": "step_limit", "segment": "segment_limit", "cps": "false", "rec": "limit"}


def ladders(tier):
    if tier == "thorough":
        return {"reason": list(range(0, 61)) + [100, 300], "segment": [2, 3, 4, 5, 6, 7, 8],
                "cps": [2, 3, 4, 5, 6, 7, 8, 9], "rec": [1, 2, 5, 10, 20, 50, 100, 200, 500, 1000, 2000, 5000, 10000, 20000]}
    return {"reason": [0, 1, 2, 3, 4, 5, 6, 8, 10, 13, 17, 22, 30, 45, 60], "segment": [2, 3, 4, 5, 6],
            "cps": [2, 3, 4, 5, 6, 7], "rec": [1, 2, 5, 10, 30, 100, 300, 1000, 3000]}


def rec_ladder(base, rng):
    """cycle limits for one program: the fixed ladder plus limits of its own - just above a power of
    two (the reference snapshot of quick_term_or_rec is retaken at doubling intervals, so what a
    limit can see depends on where it falls between two snapshots; seeded change C15-E shows only
    for limits in (2^k, 2^k + 2^k/8)) and log-uniform ones.  Consecutive limits are compared."""
    top = base[-1]
    extra = set()
    for _ in range(3):
        k = rng.randrange(3, max(4, top.bit_length()))
        extra.add(min(top, (1 << k) + rng.randrange(1, max(2, (1 << k) // 8 + 1))))
        extra.add(min(top, (1 << k) + rng.randrange(1, max(2, (1 << k) // 2))))
    for _ in range(2):
        extra.add(min(top, int(2 ** rng.uniform(1, top.bit_length()))))
    return sorted(set(base) | extra)


def dims(prog):
    rows = prog.split("  ")
    return len(rows), len(rows[0].split(" "))


def programs(tier, seed):
    rng = random.Random(seed * 104729 + 15)
    progs = list(core.all_progs(2, 2, first_defined=True))
    if tier != "thorough":
        progs = rng.sample(progs, 1500)
    for _ in range(12000 if tier == "thorough" else 5000):
        s, c = rng.choice(core.SIZES[:-1])
        progs.append(core.rand_prog(rng, s, c, p_undef=rng.choice([0.0, 0.1, 0.3]), normal=rng.random() < 0.5))
    stride = 997 if tier == "thorough" else 1499
    for (s, c) in ((3, 2), (2, 3)):
        progs += list(core.all_progs(s, c, first_defined=True, stride=stride, offset=seed % stride))
    named = core.named_progs()
    progs += named if tier == "thorough" else rng.sample(named, min(200, len(named)))
    return progs


def check(rep, tier, seed, replay):
    lad = ladders(tier)
    progs = programs(tier, seed)
    groups = []     # (family, [lines in ladder order])
    lrng = random.Random(seed * 15485863 + 1515)
    for p in progs:
        st, co = dims(p)
        for g in GOALS:
            groups.append(("reason", [f"cant_{g} {d} | {p}" for d in lad["reason"]]))
            groups.append(("segment", [f"seg_{g} {s} | {p}" for s in lad["segment"]]))
            groups.append(("segment", [f"segp_{g} {st} {co} {s} | {p}" for s in lad["segment"]]))
            groups.append(("cps", [f"cps_{g} {r} | {p}" for r in lad["cps"]]))
        if p.startswith("1RB"):
            groups.append(("rec", [f"rec {n} | {p}" for n in rec_ladder(lad["rec"], lrng)]))
    corpus = core.corpus_lines("C15")
    lines = corpus + [l for _, ls in groups for l in ls]
    impl = core.run_harness(lines)
    model = core.run_driver(lines)
    mism = diff_streams(rep, lines, impl, model)
    if mism:
        from .deciders import cps_order_sensitive
        mism, dropped = cps_order_sensitive(mism)
        rep.cov["mismatches_not_compared_order_sensitive_near_limit"] = len(dropped)
    k = len(corpus)
    pairs = 0
    decided = set()
    fam_counts = {}
    for fam, ls in groups:
        outs = impl[k:k + len(ls)]
        lim = LIMIT_ANSWER[fam]
        for i in range(len(ls) - 1):
            a, b = outs[i], outs[i + 1]
            pairs += 1
            if a == lim or a == b:
                continue
            if a in ("PANIC", "limit:overflow"):
                continue        # a panic is not an answer
            rep.violation("oracle", {"case": ls[i], "case_larger_limit": ls[i + 1], "impl": a, "impl_larger_limit": b,
                                     "why": "an answer other than 'limit reached' changed when the limit was raised"})
        non_limit = [o for o in outs if o != lim and o not in ("PANIC", "limit:overflow")]
        if non_limit and outs[0] == lim:
            decided.add(ls[0])      # answer flips from limit to a verdict somewhere on the ladder
        fam_counts[fam] = fam_counts.get(fam, 0) + 1
        k += len(ls)
    for m in mism[:100]:
        rep.violation("correspondence", m, found_input=False)
    rep.add_counts(len(lines), len(decided))
    rep.cov["rule"] = ("programs (first instruction defined): " + ("every" if tier == "thorough" else "a seeded sample of the") + " 2x2 table(s), seeded random tables up to "
                       "6x2/4x3/2x6, stride slices of 3x2/2x3, named machines; each of the four deciders (backward reasoner, segment analysis through the wrapper and "
                       "the trait API, CPS, quick recurrence on normal-form programs) x three goals is called at every limit of a ladder "
                       f"(depth {lad['reason'][0]}..{lad['reason'][-1]}, segments {lad['segment'][0]}..{lad['segment'][-1]}, radius {lad['cps'][0]}..{lad['cps'][-1]}, "
                       f"cycles {lad['rec'][0]}..{lad['rec'][-1]} plus, per program, limits just above powers of two and log-uniform ones); the real answers at consecutive limits are compared (by transitivity this covers every pair on the ladder). "
                       "Distinct non-trivial = distinct (decider, goal, program) ladders on which the answer changes from 'limit reached' to a verdict.")
    rep.cov["samples"] = [groups[0][1][0], groups[len(groups) // 2][1][-1], groups[-1][1][0]]
    rep.cov["ladders_by_decider"] = fam_counts
    rep.cov["consecutive_pairs_checked"] = pairs
    rep.cov["correspondence_mismatches"] = len(mism)
    from . import proofs
    proofs.attach(rep, "C15")
