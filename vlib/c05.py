"""C05: segment analysis verdicts are true of the real machine."""
from . import core
from .common import diff_streams, parse_kv
from .deciders import GOALS, program_stream, event_happens, escalate

LEVEL = "proof"
POSITIVE = {"halt": "halt", "blank": "blank", "spin_out": "spinout"}


def dims(prog):
    rows = prog.split("  ")
    return len(rows), len(rows[0].split(" "))


def segs_for(tier, name):
    if name.endswith("slice") or "-all-" in name:
        return [2, 4] if tier == "thorough" else [3]
    if tier == "thorough":
        return [2, 3, 4, 5, 6, 7, 8]
    return [2, 3, 5]


def holds(goal, verdict, f):
    """is the verdict true of the L0 facts?  returns True / False / None (cannot tell in budget)"""
    if verdict.startswith("refuted"):
        return not event_happens(goal, f)
    if verdict == "repeat":
        return f["halt"] == "none"
    if verdict == "halt":
        return True if f["halt"] != "none" else None
    if verdict == "spinout":
        return True if f["spin"] != "none" else None
    if verdict == "blank":
        return True if f["blanks"] != "" else None
    return True   # limits are not verdicts


def check(rep, tier, seed, replay):
    budget = 50000 if tier == "thorough" else 5000
    big_budget = 3_000_000
    total = 0
    kinds = {}
    distinct = set()
    samples = []
    all_mism = []
    unconfirmed = 0
    cert_tried = cert_ok = 0
    for name, progs in [("corpus", None)] + list(program_stream(tier, seed, quick_random=12000, thorough_random=40000)):
        if name == "corpus":
            lines = core.corpus_lines("C05")
        else:
            lines = []
            for p in progs:
                st, co = dims(p)
                for g in GOALS:
                    for s in segs_for(tier, name):
                        lines.append(f"seg_{g} {s} | {p}")
                        lines.append(f"segp_{g} {st} {co} {s} | {p}")
        if not lines:
            continue
        impl = core.run_harness(lines)
        model = core.run_driver(lines)
        all_mism += diff_streams(rep, lines, impl, model, what=f"correspondence[{name}]")
        # ---- oracle
        need = {}
        for line, out in zip(lines, impl):
            kind = out.split("(")[0]
            kinds[kind] = kinds.get(kind, 0) + 1
            if kind in ("refuted", "repeat", "halt", "spinout", "blank"):
                need.setdefault(line.split(" | ", 1)[1], []).append((line, out))
        progs_j = sorted(need)
        # verdicts certified by theorem: the repaired wrapper (py_segment_fixed_sound, no hypothesis)
        # gives the same verdict kind for the same program, goal and segment limit
        cl = [(line, out) for p_ in progs_j for line, out in need[p_]]
        cl = cl if tier == "thorough" else cl[:6000]
        fx = []
        for line, out in cl:
            op = line.split(" ")[0]
            g = op.split("_", 1)[1]
            segs = line.split(" | ")[0].split(" ")[-1]
            fx.append(f"seg_{g}_fix {segs} | {line.split(' | ', 1)[1]}")
        fo = core.run_driver(fx)
        cert_tried += len(cl)
        cert_ok += sum(1 for (line, out), o in zip(cl, fo) if o.split("(")[0] == out.split("(")[0])
        facts = dict(zip(progs_j, [parse_kv("x " + o) for o in core.run_driver([f"l0run {budget} | {p}" for p in progs_j])]))
        bad, retry = [], []
        for p in progs_j:
            for line, out in need[p]:
                goal = line.split(" ")[0].split("_", 1)[1]
                h = holds(goal, out, facts[p])
                if h is False:
                    bad.append((line, out, facts[p]))
                elif h is None:
                    retry.append((line, out, p))
                else:
                    distinct.add((goal, p, out.split("(")[0]))
        if retry:
            ps = sorted({p for _, _, p in retry})
            f2 = dict(zip(ps, [parse_kv("x " + o) for o in core.run_driver([f"l0run {big_budget} | {p}" for p in ps])]))
            for line, out, p in retry:
                goal = line.split(" ")[0].split("_", 1)[1]
                h = holds(goal, out, f2[p])
                if h is True:
                    distinct.add((goal, p, out))
                else:
                    unconfirmed += 1
                    bad.append((line, out, f2[p]))
        # ---- attribution (F2: wrapper's table size from defined keys only)
        if bad:
            fl, meta = [], []
            for line, out, f in bad:
                op = line.split(" ")[0]
                if op.startswith("seg_"):
                    fl.append(line.replace(op, op + "_fix", 1))
                    meta.append((line, out, f, True))
                else:
                    meta.append((line, out, f, False))
            fo = iter(core.run_driver(fl)) if fl else iter([])
            model_of = dict(zip(lines, model))
            for line, out, f, wrapper in meta:
                detail = {"case": line, "impl": out, "l0": {k: f[k] for k in ("halt", "spin", "erase", "blanks", "steps")}}
                if wrapper:
                    fixed = next(fo)
                    goal = line.split(" ")[0].split("_", 1)[1]
                    if model_of[line] == out and holds(goal, fixed, f) is not False and fixed != out:
                        rep.known("F2", line)
                        continue
                    detail["model_fixF2"] = fixed
                rep.violation("oracle", detail)
        total += len(lines)
        samples += lines[:2]
        core.log(f"[C05] {name}: {len(lines)} cases, {sum(len(v) for v in need.values())} verdicts judged, {len(bad)} contradicted")
    if all_mism and not any(v.get("found_input") for v in rep.violations):
        def refuted_by(line, out, f):
            return holds(line.split(" ")[0].split("_", 1)[1], out, f) is False
        escalate(rep, all_mism, lambda o: o.split("(")[0] in ("refuted", "repeat"), refuted_by, seed)
    for m in all_mism[:200]:
        rep.violation("correspondence", m, found_input=False)
    rep.add_counts(total, len(distinct))
    rep.cov["rule"] = ("programs with first instruction defined: every 2x2 table, a seed-dependent slice (quick) or all (thorough) of the 3x2 and 2x3 "
                       "tables, seeded random tables up to 6x2/4x3/2x6, named machines; goals halt/blank/spin_out; segment limits; through the string "
                       "wrapper (seg_*) and the trait API with the text's table size (segp_*). Every verdict (refuted / halt / blank / spinout / repeat) "
                       "of the real code is judged against an L0 run (budget %d steps; positive verdicts not seen in budget are re-run with %d). "
                       "Distinct non-trivial = distinct (goal, program, verdict kind) judged true." % (budget, big_budget))
    rep.cov["samples"] = samples[:6]
    rep.cov["answer_kinds"] = kinds
    rep.cov["verdicts_checked_against_repaired_wrapper"] = cert_tried
    rep.cov["verdicts_certified_by_theorem"] = cert_ok
    rep.cov["explanation"] = ("a verdict of the real code is certified by theorem when the model of the repaired wrapper (table size from keys and "
                              "instruction contents; py_segment_fixed_sound holds for it with no hypothesis) gives the same verdict kind for the same "
                              "program, goal and segment limit. Certified verdicts need no step budget; the L0 run judges all of them anyway.")
    rep.cov["positive_verdicts_unconfirmed_in_big_budget"] = unconfirmed
    rep.cov["correspondence_mismatches"] = len(all_mism)
    rep.assumptions.append(f"L0 oracle budget {budget} base steps: an event later than that is not seen")
    import os
    if os.path.exists(os.path.join(core.LEAN, "BB", "Props", "C05.lean")):
        from . import proofs
        proofs.attach(rep, "C05")
