"""C12: compressed tape stays canonical; observers tell the truth."""
import itertools
import random
from . import core
from .common import diff_streams

LEVEL = "proof"


def naive_replay(ops):
    """cell-level replay of an op string; yields (stepped, left(nearest first), scan, right) trimmed"""
    left, right, scan = [], [], 0
    out = []
    for i in range(0, len(ops) - 2, 3):
        d, c, k = ops[i] == "R", int(ops[i + 1]), ops[i + 2] == "s"
        pull, push = (right, left) if d else (left, right)
        stepped = 1
        if k:
            # sweep over the stored maximal run of cells equal to the scanned colour
            run = 0
            while run < len(pull) and pull[run] == scan:
                run += 1
            if run > 0:
                del pull[:run]
                stepped = 1 + run
        for _ in range(stepped):
            push.insert(0, c)
        scan = pull.pop(0) if pull else 0
        while left and left[-1] == 0:
            left.pop()
        while right and right[-1] == 0:
            right.pop()
        out.append((stepped, list(left), scan, list(right)))
    return out


def rle(cells):
    res = []
    for x in cells:
        if res and res[-1][0] == x:
            res[-1][1] += 1
        else:
            res.append([x, 1])
    return res


def show_block(c, n):
    return f"{c}" if n == 1 else f"{c}^{n}"


def expected_obs(left, scan, right):
    lb, rb = rle(left), rle(right)
    disp = " ".join([show_block(c, n) for c, n in reversed(lb)] + [f"[{scan}]"] + [show_block(c, n) for c, n in rb])
    marks = sum(1 for x in left + right if x) + (1 if scan else 0)
    blank = marks == 0
    eL = scan == 0 and not left
    eR = scan == 0 and not right
    sig = lambda bs: ",".join(f"[{c}]" if n == 1 else f"{c}" for c, n in bs)
    u = ",".join(map(str, list(reversed(left)) + [scan] + right))
    tf = lambda b: "true" if b else "false"
    return (f"{disp};m={marks};b={tf(blank)};eL={tf(eL)};eR={tf(eR)};n={len(lb) + len(rb)};"
            f"c={','.join(str(n) for _, n in lb)}/{','.join(str(n) for _, n in rb)};"
            f"sig={scan}|{sig(lb)}|{sig(rb)};u={u}")


def gen(tier, seed):
    rng = random.Random(seed * 7919 + 12)
    atoms = [d + str(c) + k for d in "LR" for c in range(3) for k in "ns"]
    L = 5 if tier == "thorough" else 4
    lines = ["tapeops " + "".join(t) for t in itertools.product(atoms, repeat=L)]
    n_long = 400 if tier == "thorough" else 60
    for _ in range(n_long):
        ncol = rng.choice([2, 3, 4, 6])
        n = rng.choice([200, 1000, 10000]) if tier == "thorough" else rng.choice([200, 2000])
        # biased walk so that blocks build up and sweeps happen
        ops = []
        for _ in range(n):
            d = "R" if rng.random() < rng.choice([0.5, 0.7, 0.3]) else "L"
            ops.append(d + str(rng.randrange(ncol)) + rng.choice("nnnss"))
        lines.append("tapeopsh " + "".join(ops))
    for _ in range(3000 if tier == "thorough" else 300):
        ncol = rng.choice([2, 3, 6])
        n = rng.randrange(6, 40)
        lines.append("tapeops " + "".join(rng.choice("LR") + str(rng.randrange(ncol)) + rng.choice("ns") for _ in range(n)))
    # sig_compatible: a tape against the signature of ANOTHER tape (both reached by steps): all pairs
    # of short histories, and random pairs that share a prefix (so that scans and near blocks agree)
    short = ["".join(t) for t in itertools.product([d + str(c) + "n" for d in "LR" for c in range(3)], repeat=2)]
    short += ["".join(t) for t in itertools.product(["L1n", "R1n", "L2n", "R2n", "R0n", "L0n", "R1s", "L2s"], repeat=3)]
    pairs = list(itertools.product(short, repeat=2))
    if tier != "thorough":
        pairs = rng.sample(pairs, 20000)
    lines += [f"sigcompat {a} {b}" for a, b in pairs]
    for _ in range(20000 if tier == "thorough" else 3000):
        ncol = rng.choice([2, 3, 4])
        mk = lambda n: "".join(rng.choice("LR") + str(rng.randrange(ncol)) + rng.choice("nnns") for _ in range(n))
        pre = mk(rng.randrange(0, 12))
        lines.append(f"sigcompat {pre + mk(rng.randrange(1, 8))} {pre + mk(rng.randrange(1, 8))}")
    return lines


def sig_compatible_from_cells(a, b):
    """what `sig_compatible` means, read off the cells: same scanned colour, and on each side the
    tape has at least as many maximal runs as the signature names, with the same colours in order"""
    (_, la, sa, ra), (_, lb, sb, rb) = a, b
    if sa != sb:
        return False
    for ca, cb in ((la, lb), (ra, rb)):
        ba, bb = rle(ca), rle(cb)
        if len(ba) < len(bb) or any(x[0] != y[0] for x, y in zip(ba, bb)):
            return False
    return True


def check(rep, tier, seed, replay):
    lines = core.corpus_lines("C12") + gen(tier, seed)
    impl = core.run_harness(lines)
    model = core.run_driver(lines)
    mism = diff_streams(rep, lines, impl, model)
    obs_checked = 0
    nontrivial = 0
    sig_checked = sig_true = 0
    for line, out in zip(lines, impl):
        op, ops = line.split(" ", 1)
        if op == "sigcompat" and out in ("true", "false"):
            a, b = ops.split(" ")
            ta, tb = naive_replay(a), naive_replay(b)
            exp = sig_compatible_from_cells(ta[-1], tb[-1])
            obs_checked += 1
            sig_checked += 1
            sig_true += exp
            if (out == "true") != exp:
                rep.violation("oracle", {"case": line, "impl": out, "expected_from_cells": str(exp).lower(),
                                         "tape": expected_obs(*ta[-1][1:])[:200], "signature_of": expected_obs(*tb[-1][1:])[:200]})
            continue
        if out in ("PANIC", "limit:overflow"):
            rep.violation("oracle", {"case": line, "impl": out, "why": "panic on a step sequence"})
            continue
        truth = naive_replay(ops)
        if op == "tapeops":
            outs = out.split(" # ")
            if len(outs) != len(truth):
                rep.violation("oracle", {"case": line, "impl": out[:500], "why": "length"})
                continue
            for j, (o, (k, l, s, r)) in enumerate(zip(outs, truth)):
                exp = f"{k}:{expected_obs(l, s, r)}"
                obs_checked += 1
                if o != exp:
                    rep.violation("oracle", {"case": line, "step": j, "impl": o[:800], "expected_from_cells": exp[:800]})
                    break
            if len({tuple(t[1]) + (t[2],) + tuple(t[3]) for t in truth}) >= 3:
                nontrivial += 1
        else:
            n, _h, o = out.split(" ", 2)
            k, l, s, r = truth[-1]
            exp = expected_obs(l, s, r)
            obs_checked += 1
            nontrivial += 1
            if o != exp or int(n) != len(truth):
                rep.violation("oracle", {"case": line[:300], "impl": o[:800], "expected_from_cells": exp[:800]})
    for m in mism:
        rep.violation("correspondence", {k: v[:800] for k, v in m.items()}, found_input=False)
    rep.add_counts(len(lines), nontrivial)
    rep.cov["rule"] = (f"all step sequences of length {5 if tier == 'thorough' else 4} over 3 colours x 2 directions x both sweep flags "
                       "(consistent or not), random sequences up to 10^4 steps over <= 6 colours; every observer after every "
                       "step compared with (a) the Lean model, (b) a cell-level replay; sig_compatible of a tape against the signature of another tape "
                       "(pairs of short histories, random pairs sharing a prefix) compared with the model and with the prefix-colour reading of the cells. Non-trivial = sequence visiting >= 3 distinct tapes.")
    rep.cov["samples"] = [lines[0], lines[len(lines) // 3], lines[-1][:120]]
    rep.cov["observer_sets_checked_against_cells"] = obs_checked
    rep.cov["sig_compatible_pairs_checked_against_cells"] = sig_checked
    rep.cov["sig_compatible_pairs_true"] = sig_true
    rep.cov["correspondence_mismatches"] = len(mism)
    rep.cov["exhaustive"] = True
    import os
    if os.path.exists(os.path.join(core.LEAN, "BB", "Props", "C12.lean")):
        from . import proofs
        proofs.attach(rep, "C12")
