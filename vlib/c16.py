"""C16: lazily compiled macro programs are history-independent."""
import random
from . import core
from . import macros as M
from .common import diff_streams

LEVEL = "proof"


def specs_for(tier, colors, rng):
    ks = [1, 2, 3, 4]
    specs = [f"block:{k}" for k in ks if colors ** k <= 4096] + [f"back:{k}" for k in ks[:3]]
    if colors ** 4 <= 4096:
        specs += ["block:2+block:2"]
    # nesting over an inner macro with many colours (cache keys far beyond small numbers)
    if colors ** 4 <= 256:
        specs += ["block:4+block:2", "block:3+block:2", "block:2+block:3"]
    if colors ** 2 <= 64:
        specs += ["block:2+back:1", "back:1+block:2"]
    return specs if tier == "thorough" else rng.sample(specs, min(3, len(specs)))


def show_slots(slots):
    return ";".join(f"{s},{c}" for s, c in slots) if slots else "-"


def parse_answers(out):
    return out.split(";") if out else []


def legal_shuffle(rng, slots, ans, block_like):
    """a random order in which (for block-like outer macros) every slot's colour is 0 or was printed
    by an earlier answer of the same sequence"""
    if not block_like:
        s = list(slots)
        rng.shuffle(s)
        return s
    handed = {0}
    rest = list(slots)
    seq = []
    while rest:
        avail = [s for s in rest if s[1] in handed]
        if not avail:
            break
        s = rng.choice(avail)
        rest.remove(s)
        seq.append(s)
        a = ans.get(s)
        if a and a != "none":
            handed.add(int(a.split(",")[0]))
    return seq


def check(rep, tier, seed, replay):
    progs, rng = M.base_programs(tier, seed + 16, n_rand_quick=1500, n_rand_thorough=4000)
    progs = [p for p in progs if M.dims(p)[0] * M.dims(p)[1] <= 9]
    n_cycles = 60 if tier == "thorough" else 30
    runs = []
    for p in progs:
        st, co = M.dims(p)
        for spec in specs_for(tier, co, rng):
            runs.append((st, co, spec, p))
    # deep nesting over many inner colours: dedicated programs, long runs (colour numbers in the
    # thousands, many distinct tapes through one converter)
    for _ in range(6000 if tier == "thorough" else 2500):
        st, co = rng.choice([(2, 3), (3, 3), (2, 4), (3, 2)])
        p = core.rand_prog(rng, st, co, p_undef=rng.choice([0.0, 0.0, 0.1]))
        spec = rng.choice(["block:4+block:2", "block:3+block:2"] if co == 3 else ["block:3+block:2", "block:2+block:2"] if co == 4
                          else ["block:4+block:2", "block:6+block:2"])
        runs.append((st, co, spec, p))
    run_lines = [f"mrun {st} {co} {spec} {n_cycles * (12 if spec.count('+') and spec[6] in '346' or spec.endswith('block:3') else 1)} | {p}"
                 for st, co, spec, p in runs]
    run_out = core.run_harness(run_lines)
    # "every macro colour handed out decodes back to the cell contents that produced it": decode the
    # configurations of the block-only runs and look them up, in order, on the L0 trajectory
    from .macrosim import judge_runs
    blk = [(l, o) for l, o in zip(run_lines, run_out) if "back" not in l.split(" ")[3]]
    if tier != "thorough":
        blk = blk[::10] + [x for x in blk if "+" in x[0].split(" ")[3] and x[0].split(" ")[3][6] in "346"][::2]
    jr = judge_runs([l for l, _ in blk], [o for _, o in blk], tier=tier)
    dec_bad = [(l, d) for l, (v, d) in jr.items() if v == "bad"]
    for l, d in dec_bad[:10]:
        rep.violation("oracle", {"case": l, **{k: str(v)[:300] for k, v in d.items()},
                                 "what": "a macro colour handed out does not decode to the cells that produced it (the decoded run leaves the base trajectory)"})
    rep.cov["block_runs_decoded_on_L0"] = len(jr)
    # ---- reference history: the run's own order
    ref_lines, ref_meta = [], []
    for (st, co, spec, p), out in zip(runs, run_out):
        cfgs, stop = M.parse_mrun(out)
        if not cfgs:
            continue
        slots = []
        for c in cfgs:
            s = (c[0], c[2])
            if s not in slots:
                slots.append(s)
        if stop.startswith("undfnd"):
            a, b = stop[len("undfnd("):-1].split(",")
            if (int(a), int(b)) not in slots:
                slots.append((int(a), int(b)))
        if len(slots) < 2:
            continue
        ref_lines.append(f"mq {st} {co} {spec} {show_slots(slots)} | {p}")
        ref_meta.append((st, co, spec, p, slots))
    ref_out = core.run_harness(ref_lines)
    # ---- other histories
    lines, meta = [], []        # meta: (ref index, [slots in answer order] or pair)
    for i, ((st, co, spec, p, slots), out) in enumerate(zip(ref_meta, ref_out)):
        if out in ("PANIC", "limit:overflow", "BAD-ARGS"):
            continue
        ans = dict(zip(slots, parse_answers(out)))
        outer = spec.replace("+", ",").split(",")[-1]
        block_like = outer.startswith("block")
        head = f"{st} {co} {spec}"
        # repetitions: everything, backwards, again
        rep_seq = slots + slots[::-1] + slots
        lines.append(f"mq {head} {show_slots(rep_seq)} | {p}")
        meta.append((i, "one", rep_seq))
        for _ in range(3 if tier == "thorough" else 2):
            seq = legal_shuffle(rng, slots, ans, block_like)
            if len(seq) >= 2:
                seq = seq + [rng.choice(seq) for _ in range(3)]
                lines.append(f"mq {head} {show_slots(seq)} | {p}")
                meta.append((i, "one", seq))
        # two objects over the same base program, interleaved
        sa = legal_shuffle(rng, slots, ans, block_like)
        sb = slots[: max(1, len(slots) // 2)]
        lines.append(f"mq2 {head} {show_slots(sa)} {show_slots(sb)} | {p}")
        meta.append((i, "two", (sa, sb)))
        # a fresh object asked for one slot alone (legal when its colour is the blank colour)
        for s in [s for s in slots if s[1] == 0][:3]:
            lines.append(f"mq {head} {show_slots([s])} | {p}")
            meta.append((i, "one", [s]))
    corpus = core.corpus_lines("C16")
    all_lines = corpus + ref_lines + lines
    impl = core.run_harness(all_lines)
    model = core.run_driver(all_lines)
    mism = diff_streams(rep, all_lines, impl, model)
    impl_of = dict(zip(all_lines, impl))
    model_of = dict(zip(all_lines, model))
    bad = []
    answers_checked = 0
    illegal = 0
    distinct = set()
    for line, (i, kind, seq) in zip(lines, meta):
        out = impl_of[line]
        st, co, spec, p, slots = ref_meta[i]
        ref = dict(zip(slots, parse_answers(impl_of[ref_lines[i]])))
        if out in ("PANIC", "limit:overflow", "BAD-ARGS"):
            illegal += 1        # a colour queried before it was handed out: not an answer
            continue
        if kind == "one":
            pairs = list(zip(seq, parse_answers(out)))
        else:
            a, b = out.split(" # ")
            pairs = list(zip(seq[0], parse_answers(a))) + list(zip(seq[1], parse_answers(b)))
        diff = [(s, got, ref[s]) for s, got in pairs if got != ref[s]]
        answers_checked += len(pairs)
        if diff:
            bad.append((line, diff, spec))
        else:
            distinct.add(line)
    # ---- attribution to F3 (backsymbol split index inserts a short tape into the colour cache).
    # With the repair the model is history-independent for EVERY sequence (theorem
    # get_instr_pure_backsymbol_fixF3_partial, checked in the audit below), so the counterfactual needs
    # no run; what has to be established per case is that the unrepaired model reproduces the real
    # answers (on the sequence and on its reference history) and that a backsymbol level is involved.
    for line, diff, spec in bad:
        i = meta[lines.index(line)][0]
        refl = ref_lines[i]
        detail = {"case": line, "impl": impl_of[line][:300], "reference_case": refl,
                  "differs": [{"slot": list(s_), "here": g, "in_run_order": r} for s_, g, r in diff[:5]]}
        if "back" in spec and model_of[line] == impl_of[line] and model_of[refl] == impl_of[refl]:
            rep.known("F3", line)
        else:
            rep.violation("oracle", detail)
    for m in mism[:100]:
        rep.violation("correspondence", {k: v[:600] for k, v in m.items()}, found_input=False)
    rep.add_counts(len(all_lines), len(distinct))
    rep.cov["rule"] = ("base programs up to 3x3 (2x2 tables " + ("all" if tier == "thorough" else "sampled") + ", seeded random 3x2/2x3/4x2/2x4/3x3, named); macro chains block:1..4, "
                       "back:1..3, block:2+block:2, block:2+back:1, back:1+block:2 (outer macro built with the inner macro's params()); the slots a run of the macro visits "
                       "are queried on the real objects in run order (reference), then with repetitions (forwards, backwards, forwards), in seeded random orders that "
                       "respect 'colour handed out before use', on two objects interleaved, and singly on a fresh object; every answer must equal the run-order answer. "
                       "A whole-sequence PANIC (colour not yet handed out) is not an answer and is counted as illegal. "
                       "Distinct non-trivial = distinct query sequences all of whose answers were compared and agreed.")
    rep.cov["samples"] = [ref_lines[0], lines[0], lines[len(lines) // 2], lines[-1]]
    rep.cov["answers_compared"] = answers_checked
    rep.cov["sequences_illegal_panic"] = illegal
    rep.cov["correspondence_mismatches"] = len(mism)
    from . import proofs
    proofs.attach(rep, "C16")
