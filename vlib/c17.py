"""C17: Python and Rust simulators agree.

Step clause (tm/tape.py Tape.step == src/tape.rs Tape::step): proved in Lean on the two models
(BB/Props/C17.lean: py_step_eq, py_step_eq_iff, step_noZero, py_run_eq); both models are tied to
the code they describe by a four-way comparison on step sequences
    real Rust `tapeops` | Lean `tapeops` (Tape.step) | real Python `pytapeops` | Lean `pytapeops` (pyStep).
Run clause (Machine(prog).run(n) vs run_prover(prog, n)): differential exploration of the two real
implementations, with the exclusions of the property's quantifier, each counted in the evidence;
and, on every such case, the real Python run against the Lean model of the Python runner
(BB/Model/PyMachine.lean `pyRun`, driver op `pyrun`), which is what the run-clause theorems of
BB/Props/C17.lean (`py_rs_run_eq_partial`, `py_rs_run_eq_counterexample`) are about.
"""
import itertools
import json
import os
import random
import shutil
import subprocess
import threading
import time

from . import core
from .common import parse_kv

OWN_REPLAY = True
LEVEL = "proof"

PYTM = os.path.join(core.CACHE, "pytm" + core.SLOT)
PYEXT_TARGET = os.path.join(core.CACHE, "pyext-target" + core.SLOT)
PY_HARNESS = os.path.join(core.VERIF, "tools", "py_harness.py")
PY_VERSION = "3.12.1"


# ---------------------------------------------------------------- Python side

def py312():
    """an interpreter that can parse tm/*.py (the default python3 may be a pyenv shim already
    resolved to another version, in which case PYENV_VERSION alone has no effect)"""
    cands = [os.environ.get("VERIF_PY312", "")]
    root = os.environ.get("PYENV_ROOT") or os.path.expanduser("~/.pyenv")
    cands.append(os.path.join(root, "versions", PY_VERSION, "bin", "python3"))
    for name in ("python3.12", "python3.13"):
        w = shutil.which(name)
        if w:
            cands.append(w)
    for c in cands:
        if c and os.path.exists(c):
            return c
    return "python3"


def py_env():
    env = dict(os.environ)
    exe = py312()
    if os.path.isabs(exe):
        env["PATH"] = os.path.dirname(exe) + os.pathsep + env.get("PATH", "")
    env.update({
        "PYENV_VERSION": PY_VERSION,
        "PYO3_USE_ABI3_FORWARD_COMPATIBILITY": "1",
        "CARGO_NET_OFFLINE": "true",
        "CARGO_TARGET_DIR": PYEXT_TARGET,
    })
    return env


def build_pyext():
    """Build tm/rust_stuff.so from /repo's current tree as the Makefile's `rust` target does
    (cargo build --release), into an external target dir, and refresh the scratch copy of the tm
    package (current *.py next to the extension).  Returns (ok, message)."""
    try:
        with core.Lock("pyext"):
            t = time.time()
            p = core.run(["cargo", "build", "--release", "--offline", "--target-dir", PYEXT_TARGET],
                         cwd=core.REPO, env=py_env(), check=False)
            if p.returncode != 0:
                return False, "extension build failed:\n" + p.stderr[-5000:]
            so = os.path.join(PYEXT_TARGET, "release", "librust_stuff.so")
            if not os.path.exists(so):
                return False, "extension build produced no librust_stuff.so"
            dst = os.path.join(PYTM, "tm")
            os.makedirs(dst, exist_ok=True)
            src = os.path.join(core.REPO, "tm")
            want = {f for f in os.listdir(src) if f.endswith(".py")}
            for f in os.listdir(dst):
                if f.endswith(".py") and f not in want:
                    os.remove(os.path.join(dst, f))
            for f in sorted(want):
                shutil.copy2(os.path.join(src, f), os.path.join(dst, f))
            tmp = os.path.join(dst, "rust_stuff.so.tmp")
            shutil.copy2(so, tmp)
            os.replace(tmp, os.path.join(dst, "rust_stuff.so"))
            p = core.run([py312(), "-c", "import sys; sys.path.insert(0, sys.argv[1]); "
                          "import tm.machine, tm.tape, tm.rules, tm.rust_stuff", PYTM],
                         env=py_env(), check=False)
            if p.returncode != 0:
                return False, "scratch tm package does not import:\n" + p.stderr[-4000:]
            core.log(f"[build] pyext {time.time()-t:.1f}s")
            return True, ""
    except Exception as exc:  # noqa: BLE001
        return False, f"build_pyext: {type(exc).__name__}: {exc}"


def run_py(lines, case_timeout=120, jobs=None, batch=None):
    """run py_harness over the lines with a pool of worker processes (dynamic batches)"""
    if not lines:
        return []
    jobs = jobs or core.NCPU
    n = len(lines)
    if batch is None:
        batch = max(1, min(2000, n // (jobs * 6) + 1))
    batches = [(i, lines[i:i + batch]) for i in range(0, n, batch)]
    out = [None] * n
    errs = []
    env = py_env()
    env["PYH_CASE_TIMEOUT"] = str(case_timeout)
    exe = py312()
    lock = threading.Lock()
    it = iter(batches)

    def worker():
        while True:
            with lock:
                nxt = next(it, None)
            if nxt is None or errs:
                return
            i, part = nxt
            try:
                p = subprocess.run([exe, PY_HARNESS, PYTM], input="\n".join(part) + "\n",
                                   capture_output=True, text=True, env=env,
                                   timeout=case_timeout * len(part) + 60)
            except subprocess.TimeoutExpired:
                errs.append(f"py_harness batch at {i} timed out")
                return
            res = p.stdout.split("\n")
            if res and res[-1] == "":
                res.pop()
            if p.returncode != 0 or len(res) != len(part):
                errs.append(f"py_harness rc={p.returncode} got {len(res)} for {len(part)}: {p.stderr[-2000:]}")
                return
            out[i:i + len(part)] = res

    ths = [threading.Thread(target=worker) for _ in range(min(jobs, len(batches)))]
    for t in ths:
        t.start()
    for t in ths:
        t.join()
    if errs:
        raise RuntimeError(errs[0])
    return out


# ---------------------------------------------------------------- step clause

ALPHA3 = [d + c + k for d in "LR" for c in "012" for k in "sn"]


def gen_step_cases(tier, seed):
    rng = random.Random(seed * 1000003 + 17)
    seqs = []
    # exhaustive: every sequence of 5 steps over 3 colours, both skip flags at every step whatever
    # the scanned block is (so flags consistent and inconsistent with the machine loop's use);
    # every shorter sequence is a prefix, and every step of a sequence is observed.
    if tier == "thorough":
        seqs += ["".join(t) for t in itertools.product(ALPHA3, repeat=5)]
    else:
        seqs += ["".join(t) for t in itertools.product(ALPHA3, repeat=4)]
        seqs += ["".join(rng.choice(ALPHA3) for _ in range(5)) for _ in range(12000)]
    n_exh = len(seqs)
    # random long sequences over <= 6 colours
    n_long = 160 if tier == "thorough" else 24
    for k in range(n_long):
        ncol = rng.randrange(2, 7)
        p_right = rng.choice([0.5, 0.5, 0.45, 0.55])
        p_skip = rng.choice([0.2, 0.5, 0.8])
        p_blank = rng.choice([0.0, 0.2, 0.5])
        s = []
        for _ in range(2000):
            d = "R" if rng.random() < p_right else "L"
            c = 0 if rng.random() < p_blank else rng.randrange(ncol)
            s.append(f"{d}{c}{'s' if rng.random() < p_skip else 'n'}")
        seqs.append("".join(s))
    # medium sequences with drift (many blocks on one side)
    n_mid = 2000 if tier == "thorough" else 300
    for k in range(n_mid):
        ncol = rng.randrange(2, 7)
        p_right = rng.choice([0.3, 0.7, 0.5])
        p_skip = rng.random()
        ln = rng.randrange(6, 120)
        seqs.append("".join(
            f"{'R' if rng.random() < p_right else 'L'}{rng.randrange(ncol)}{'s' if rng.random() < p_skip else 'n'}"
            for _ in range(ln)))
    return seqs, n_exh


def gen_x_cases(tier, seed):
    """token sequences with assignments (scan field, set_count with values >= 1): tapes that the
    blank tape does not reach by stepping but that satisfy the theorem's hypothesis"""
    rng = random.Random(seed * 1000003 + 18)
    out = []
    for _ in range(6000 if tier == "thorough" else 1200):
        ncol = rng.randrange(2, 6)
        toks = []
        for _ in range(rng.randrange(4, 70)):
            r = rng.random()
            if r < 0.7:
                toks.append(f"{rng.choice('LR')}{rng.randrange(ncol)}{rng.choice('sn')}")
            elif r < 0.8:
                toks.append(f"s={rng.randrange(ncol)}")
            else:
                toks.append(f"c{rng.choice('lr')}{rng.randrange(4)}={rng.choice([1, 1, 2, 3, 7, 40])}")
        out.append(",".join(toks))
    return out


# the excluded case of py_step_eq_iff, on the real code: a zero-count block arrives under the head
# (last token).  Rust removes the block, Python keeps it with count -1.
ZERO_WITNESSES = [
    "R1n,L2n,cr0=0,R1n",
    "R1n,L2n,cr0=0,R1s",
    "L1n,R2n,cl0=0,L0n",
    "R2n,R1n,R1n,L0n,cl1=0,L0s",
    "R1n,L2n,L2n,cr0=0,R2s",
]


def check_steps(rep, tier, seed, seqs, n_exh, xcases):
    t0 = time.time()
    l_rs = [f"tapeops {s}" for s in seqs]
    l_py = [f"pytapeops {s}" for s in seqs]
    lx_rs = [f"tapeopsx {s}" for s in xcases + ZERO_WITNESSES]
    lx_py = [f"pytapeopsx {s}" for s in xcases + ZERO_WITNESSES]
    impl_rs = core.run_harness(l_rs + lx_rs)
    model = core.run_driver(l_rs + lx_rs + l_py + lx_py)
    impl_py = run_py(l_py + lx_py)
    n = len(l_rs) + len(lx_rs)
    model_rs, model_py = model[:n], model[n:]
    cases = l_rs + lx_rs
    nz = len(ZERO_WITNESSES)
    viol = 0
    steps_checked = 0
    for k, case in enumerate(cases):
        a, b, c, d = impl_rs[k], model_rs[k], impl_py[k], model_py[k]
        witness = k >= n - nz
        if a != b:
            rep.violation("correspondence", {"case": case, "what": "real Rust Tape::step vs Lean Tape.step",
                                             "impl": a[:1500], "model": b[:1500]}, found_input=False)
            viol += 1
        if witness:
            # model says: the two real implementations differ at the last step (and only there)
            ra, rc = a.split(" # "), c.split(" # ")
            if ra[:-1] != rc[:-1] or ra[-1] == rc[-1]:
                rep.violation("correspondence", {"case": case, "what": "zero-count witness of py_step_eq_iff not reproduced by the real code",
                                                 "rust": a[:1500], "python": c[:1500]}, found_input=False)
                viol += 1
            continue
        steps_checked += a.count(" # ") + 1
        if c != d:
            rep.violation("correspondence", {"case": l_py[k] if k < len(l_py) else lx_py[k - len(l_py)],
                                             "what": "real Python Tape.step vs Lean pyStep",
                                             "impl": c[:1500], "model": d[:1500]}, found_input=False)
            viol += 1
        if a != c:
            # the property's own clause, on the real code
            pos = next((i for i, (x, y) in enumerate(zip(a.split(" # "), c.split(" # "))) if x != y), -1)
            rep.violation("oracle", {"case": case, "what": "Tape.step: Rust and Python differ", "at_step": pos,
                                     "rust": a[:1500], "python": c[:1500]})
            viol += 1
    rep.cov["step_sequences"] = {
        "short_over_3_colours": n_exh,
        "exhaustive_length": 5 if tier == "thorough" else 4,
        "long_and_drift_random": len(seqs) - n_exh,
        "with_assignments": len(xcases),
        "zero_count_witnesses_confirmed_on_real_code": nz,
        "steps_observed_four_way": steps_checked,
        "wall_s": round(time.time() - t0, 1),
    }
    return len(cases) * 4, viol


# ---------------------------------------------------------------- run clause

TREE_SPECS = [  # (states, colours, halt, steps) as in test/test_tree.py
    (2, 2, 0, 20), (3, 2, 0, 15), (2, 3, 0, 23), (4, 2, 1, 35), (2, 4, 1, 100),
]
STRIDES = {
    "quick": [1, 40, 30, 1500, 1000],
    "thorough": [1, 4, 3, 100, 70],
}


def gen_progs(tier, seed):
    """(programs, description).  Tree leaves through the harness (real tree generator), sampled by
    stride with a seed-dependent offset; the named machines."""
    rng = random.Random(seed * 1000003 + 19)
    strides = STRIDES["thorough" if tier == "thorough" else "quick"]
    lines = [f"treelist17 {s} {c} {h} {st} {stride} {(seed * 7919 + 13 * i) % stride}"
             for i, ((s, c, h, st), stride) in enumerate(zip(TREE_SPECS, strides))]
    outs = core.run_harness(lines)
    progs, desc = [], []
    if all(o not in ("BAD-OP", "PANIC", "limit:overflow") for o in outs):
        for (s, c, h, st), stride, o in zip(TREE_SPECS, strides, outs):
            parts = o.split(";")
            got = [p for p in parts[1:] if p]
            progs += got
            desc.append(f"{s}x{c}: {len(got)} of {parts[0]} leaves (tree_progs steps={st} halt={h})")
    else:
        n = 4000 if tier == "thorough" else 300
        for _ in range(n):
            s, c = rng.choice([(2, 2), (3, 2), (2, 3), (4, 2), (2, 4)])
            progs.append(core.rand_prog(rng, s, c, p_undef=rng.choice([0.0, 0.1, 0.2]), normal=True))
        desc.append(f"{n} random normal-form programs (tree op unavailable)")
    named = core.named_progs()
    # every named machine in both tiers (1 644 machines: 3 s of Python at 2000 cycles)
    desc.append(f"{len(named)} named machines")
    seen, res = set(), []
    for p in progs + named:
        if p not in seen:
            seen.add(p)
            res.append(p)
    return res, desc


def parse_blanks(s):
    return dict(x.split(":") for x in s.split(",") if x)


def compare_run(r_line, p_line):
    """returns (category, fields): category None = compared and agree, 'MISMATCH', or an
    exclusion name"""
    if r_line == "limit:overflow":
        return "rust_overflow", []
    if r_line in ("PANIC", "BAD-OP"):
        return "RUSTFAIL", []
    if p_line == "PYTIMEOUT":
        return "python_timeout", []
    if p_line.startswith("PYEXC") or p_line == "BAD-OP":
        return "PYFAIL", []
    r, p = parse_kv(r_line), parse_kv(p_line)
    if r["result"] in ("cfglim", "mulrul"):
        return "rust_" + r["result"], []
    if p["result"] in ("cfglim", "limrul"):
        return "python_" + p["result"], []
    if p["nonadd"] != "0":
        return "python_nonadditive_op", []
    if p["sdr"] != "0":
        # a count with constant second difference: Python's make_rule skips it and may still reach
        # the infinite-rule verdict from the other counts; Rust has no such rule form (Unknown)
        return "python_second_difference", []
    if p.get("cap", "0") != "0":
        # Python simulated a delta of more than 90 000 steps; the Rust prover has a hard-coded cap
        # there (src/prover.rs try_rule returns None) that it does not report in its result
        return "rust_delta_cap_90000_unreported", []
    bad = []
    if r["result"] != p["result"]:
        bad.append("kind")
    if r["marks"] != p["marks"]:
        bad.append("marks")
    if r["rulapp"] != p["rulapp"]:
        bad.append("rulapp")
    rb, pb = parse_blanks(r["blanks"]), parse_blanks(p["blanks"])
    # Python's step counter is -1 after the first rule application (Rust's keeps counting the
    # stepped part), so the recorded step is compared only while Python still has one
    if set(rb) != set(pb) or any(v != "-1" and rb[k] != v for k, v in pb.items()):
        bad.append("blanks")
    if r["last"] != p["last"]:
        bad.append("undefined-slot")
    if bad:
        return "MISMATCH", bad
    return None, []


PYMODEL_FIELDS = ("result", "cycles", "marks", "rulapp", "blanks", "last")


def compare_pymodel(p_line, m_line):
    """real Python `pyrun` line against the model's.  Returns (category, detail): category None =
    compared and agree, 'outside' = both say the run leaves the additive fragment, 'skipped',
    or 'MISMATCH'."""
    if p_line == "PYTIMEOUT":
        return "skipped", []
    if m_line in ("BAD-OP", "PANIC", "limit:overflow") or m_line.startswith("BOUNDARY"):
        return "MISMATCH", ["model:" + m_line[:60]]
    if p_line.startswith("PYEXC") or m_line.startswith("PYEXC"):
        return (None, []) if p_line == m_line else ("MISMATCH", ["exception"])
    if p_line == "BAD-OP":
        return "MISMATCH", ["python:BAD-OP"]
    p, m = parse_kv(p_line), parse_kv(m_line)
    if (p.get("nonadd") != "0") != (m.get("outside") != "0"):
        return "MISMATCH", ["outside"]
    if m.get("outside") != "0":
        return "outside", []
    bad = [f for f in PYMODEL_FIELDS if p.get(f) != m.get(f)]
    if bad:
        return "MISMATCH", bad
    return None, []


def check_runs(rep, tier, seed, cases):
    """cases: list of (lim, prog)"""
    t0 = time.time()
    l_rs = [f"runprover17 {lim} | {p}" for lim, p in cases]
    l_py = [f"pyrun {lim} | {p}" for lim, p in cases]
    impl_rs = core.run_harness(l_rs)
    if impl_rs and impl_rs[0] == "BAD-OP":
        rep.violation("harness-op-missing", {"op": "runprover17 (harness/src/ops_py.rs not wired)"},
                      found_input=False)
        return 0, 0
    impl_py = run_py(l_py, case_timeout=60 if tier != "thorough" else 150)
    # the Lean model of the Python runner on the same cases
    model_py = core.run_driver(l_py)
    pm_cases = pm_mis = pm_out = pm_skip = 0
    if model_py and model_py[0] == "BAD-OP":
        rep.violation("driver-op-missing", {"op": "pyrun (BB/Driver/OpsPyRun.lean not wired)"},
                      found_input=False)
        pm_mis += 1
    else:
        for k, (p_line, m_line) in enumerate(zip(impl_py, model_py)):
            cat, fields = compare_pymodel(p_line, m_line)
            if cat == "skipped":
                pm_skip += 1
                continue
            pm_cases += 1
            if cat == "MISMATCH":
                pm_mis += 1
                rep.violation("correspondence", {"case": l_py[k], "what": "real Machine.run vs Lean pyRun",
                                                 "fields": fields, "impl": p_line[:600], "model": m_line[:600]},
                              found_input=False)
            elif cat == "outside":
                pm_out += 1
    rep.cov["pymodel_cases"] = pm_cases
    rep.cov["pymodel_mismatches"] = pm_mis
    rep.cov["pymodel_outside"] = pm_out
    rep.cov["pymodel_skipped_python_timeout"] = pm_skip
    excl, excl_ex, kinds_r, kinds_p = {}, {}, {}, {}
    overflow_idx = []
    compared = nontrivial = viol = 0
    flags = {"sus": 0, "unk": 0}
    for k, (r_line, p_line) in enumerate(zip(impl_rs, impl_py)):
        kr, kp = r_line.split(" ")[0], p_line.split(" ")[0]
        kinds_r[kr] = kinds_r.get(kr, 0) + 1
        kinds_p[kp] = kinds_p.get(kp, 0) + 1
        cat, fields = compare_run(r_line, p_line)
        if cat == "rust_overflow":
            overflow_idx.append(k)
        if cat == "RUSTFAIL":
            rep.violation("oracle", {"case": l_rs[k], "what": "run_prover panicked", "rust": r_line, "python": p_line})
            viol += 1
        elif cat == "PYFAIL":
            rep.violation("oracle", {"case": l_rs[k], "what": "Machine.run raised", "rust": r_line, "python": p_line})
            viol += 1
        elif cat == "MISMATCH":
            rep.violation("oracle", {"case": l_rs[k], "fields": fields, "rust": r_line, "python": p_line})
            viol += 1
        elif cat is not None:
            excl[cat] = excl.get(cat, 0) + 1
            if len(excl_ex.setdefault(cat, [])) < 3:
                excl_ex[cat].append({"case": l_rs[k], "rust": r_line[:300], "python": p_line[:300]})
        else:
            compared += 1
            p = parse_kv(p_line)
            for f in flags:
                flags[f] += int(p[f] != "0")
            if p["rulapp"] != "0" or int(p["cycles"]) >= 2:
                nontrivial += 1
    # F9: where the overflow-checked build reports overflow, does the shipped (release) extension
    # return a result computed from wrapped counters?
    f9 = 0
    if overflow_idx:
        ext = run_py([f"extrun {cases[k][0]} | {cases[k][1]}" for k in overflow_idx], case_timeout=60)
        for k, e in zip(overflow_idx, ext):
            if e not in ("EXTPANIC", "PYTIMEOUT") and not e.startswith("PYEXC"):
                f9 += 1
                rep.known("F9", f"rust_stuff.run_prover('{cases[k][1]}', {cases[k][0]}) -> {e.split(' last=')[0]}"
                                f" ; overflow-checked build: limit:overflow ; Python: {impl_py[k].split(' last=')[0][:160]}")
    for cat in ("rust_delta_cap_90000_unreported", "python_second_difference"):
        if excl.get(cat):
            rep.notes.append(f"run clause: {excl[cat]} program(s) excluded as {cat}: the two implementations "
                             f"give different results there, e.g. {excl_ex[cat][0]}")
    rep.cov["runs"] = {
        "cases": len(cases),
        "compared_field_by_field": compared,
        "excluded": excl,
        "excluded_examples": excl_ex,
        "release_extension_wrapped_where_checked_build_overflows": f9,
        "outcome_kinds_rust": kinds_r,
        "outcome_kinds_python": kinds_p,
        "compared_runs_with_SuspectedRule": flags["sus"],
        "compared_runs_with_UnknownRule": flags["unk"],
        "wall_s": round(time.time() - t0, 1),
    }
    return len(cases) * 2 + pm_cases, nontrivial


def gen_run_cases(tier, seed):
    progs, desc = gen_progs(tier, seed)
    if tier == "thorough":
        # the 10^4 runs dominate the cost (Python: seconds each): every 5th program gets one
        off = seed % 5
        cases = [(lim, p) for k, p in enumerate(progs)
                 for lim in ((100, 1000, 10000) if k % 5 == off else (100, 1000))]
    else:
        off = seed % 8
        cases = [(2000, p) for p in progs]
        cases += [(10000, p) for k, p in enumerate(progs) if k % 8 == off]
        cases += [(100, p) for k, p in enumerate(progs) if k % 8 == (off + 4) % 8]
    return cases, desc


# ---------------------------------------------------------------- entry

def load_replay(path):
    data = json.load(open(path))
    seqs, xcases, runs = [], [], []
    for v in data.get("violations", []):
        case = v.get("case", "")
        head, _, text = case.partition(" | ")
        parts = head.split(" ")
        if parts[0] in ("tapeops", "pytapeops") and len(parts) == 2:
            seqs.append(parts[1])
        elif parts[0] in ("tapeopsx", "pytapeopsx") and len(parts) == 2:
            xcases.append(parts[1])
        elif parts[0] in ("runprover17", "pyrun") and len(parts) == 2:
            runs.append((int(parts[1]), text))
    return seqs, xcases, runs


def check(rep, tier, seed, replay):
    ok, msg = build_pyext()
    if not ok:
        rep.violation("pyext-build-failed", {"output": msg[-3000:]}, found_input=False)
        return
    probe = core.run_driver(["pytapeops R1n"])
    if probe[0] == "BAD-OP":
        rep.violation("driver-op-missing", {"op": "pytapeops (BB/Driver/OpsPyTape.lean not wired)"},
                      found_input=False)
        return
    if replay:
        seqs, xcases, cases = load_replay(replay)
        n_exh, desc = 0, ["replay"]
    else:
        seqs, n_exh = gen_step_cases(tier, seed)
        xcases = gen_x_cases(tier, seed)
        cases, desc = gen_run_cases(tier, seed)
        for line in core.corpus_lines("C17"):
            head, _, text = line.partition(" | ")
            parts = head.split(" ")
            if parts[0] == "tapeops":
                seqs.append(parts[1])
            elif parts[0] == "runprover17":
                cases.append((int(parts[1]), text))
    ev1, _ = check_steps(rep, tier, seed, seqs, n_exh, xcases)
    ev2, nontrivial = check_runs(rep, tier, seed, cases)
    rep.add_counts(ev1 + ev2, nontrivial + len(set(seqs)) + len(set(xcases)))
    rep.cov["rule"] = (
        "step clause: every sequence of " + ("5" if tier == "thorough" else "4 (and a seeded sample of 5)")
        + " steps over 3 colours x 2 shifts x 2 skip flags from the blank tape, seeded random sequences of 2000"
          " steps over 2..6 colours, drifted sequences, sequences with scan/set_count assignments; each step observed"
          " on real Rust, real Python and both Lean models."
          " run clause: " + "; ".join(desc) + "; cycle limits "
        + ("100, 1000 (all), 10000 (every 5th program)" if tier == "thorough" else "2000 (all), 10000 and 100 (every 8th program each)")
        + ". Distinct non-trivial = compared runs with >= 2 cycles or a rule application, plus distinct step sequences.")
    rep.cov["samples"] = ([f"tapeops {seqs[0]}"] if seqs else []) + [f"runprover17 {l} | {p}" for l, p in cases[:2]] \
        + [f"pyrun {l} | {p}" for l, p in cases[len(cases) // 2: len(cases) // 2 + 2]]
    rep.assumptions += [
        "Python side: tm/*.py of /repo's working tree with the extension built from the same tree (release profile, as the Makefile ships it); Rust side of the run clause: the overflow-checked harness build",
        "run clause: differential exploration of the two real implementations, plus the Lean model of the Python runner (pyRun) compared with the real Machine.run on every case (kind, cycles, marks, rulapp, blanks, last; nonadd=1 <=> model says outside); the run-clause theorems (py_rs_run_eq_partial / _counterexample) relate pyRun to the model of run_prover",
        "pyStep models Python ints as Nat: exact unless a count goes negative, which happens only in the excluded zero-count case",
        "blank-tape record: states compared always, recorded step compared while Python's step counter is still defined (it is -1 after the first rule application)",
    ]
    from . import proofs
    proofs.attach(rep, "C17")
