"""Independent sequential reference enumerator for C10, written from the property's sentence, not
from tree.rs: cell-level tape, no blocks, no incremental 'avail' bookkeeping.

  * start from the table {A0: 1RB}; run from the blank tape;
  * a step limit counts cycles: one cycle = one instruction execution, or, when the instruction keeps
    the state, the maximal sweep over the cells that hold the scanned colour;
  * when an undefined slot is reached within the limit (counted from the configuration at which the
    previous slot was filled) and the slot budget is not spent, fill it with every instruction
    (colour, shift, state) whose state is at most one beyond the highest state mentioned so far
    (as a row that was reached or as an instruction's target), likewise for colours, both capped by
    the table size; continue from that configuration with a fresh limit;
  * otherwise (limit, blank tape after a cycle, spin-out, budget spent) the table is complete;
  * emit it iff some instruction goes to the last state and some instruction prints the last colour.
"""


def show(prog, S, C):
    rows = []
    for s in range(S):
        row = []
        for c in range(C):
            i = prog.get((s, c))
            row.append("..." if i is None else f"{i[0]}{'R' if i[1] else 'L'}{chr(65 + i[2])}")
        rows.append(" ".join(row))
    return "  ".join(rows)


def run(prog, state, left, scan, right, lim):
    """returns ('undef', slot, state, left, scan, right) or ('done',)"""
    left, right = list(left), list(right)
    for _ in range(lim):
        ins = prog.get((state, scan))
        if ins is None:
            return ("undef", (state, scan), left, scan, right)
        pr, sh, nxt = ins
        pull, push = (right, left) if sh else (left, right)
        if nxt == state:
            if scan == 0 and not any(pull):
                return ("done",)               # spin-out
            c = scan
            while True:
                push.append(pr)
                scan = pull.pop() if pull else 0
                if scan != c:
                    break
                if c == 0 and not any(pull):     # cannot happen for c == 0 (caught above); guard
                    break
        else:
            push.append(pr)
            scan = pull.pop() if pull else 0
        state = nxt
        if scan == 0 and not any(left) and not any(right):
            return ("done",)                   # blank tape
    return ("done",)                           # limit reached without meeting an undefined slot


def enumerate_tree(S, C, halt, lim):
    """list of emitted program texts (with duplicates, if any), in no particular order"""
    budget = S * C - 1 - (1 + (1 if halt else 0))
    if budget < 0:
        raise OverflowError("slot budget underflow")
    out = []

    def emit(prog):
        if any(i[2] == S - 1 for i in prog.values()) and any(i[0] == C - 1 for i in prog.values()):
            out.append(show(prog, S, C))

    def fills(prog, slot):
        ms = max([slot[0]] + [k[0] for k in prog] + [i[2] for i in prog.values()])
        mc = max([slot[1]] + [k[1] for k in prog] + [i[0] for i in prog.values()])
        ns, nc = min(S, ms + 2), min(C, mc + 2)
        return [(c, sh, s) for c in range(nc) for sh in (False, True) for s in range(ns)]

    def grow(prog, state, left, scan, right, remaining):
        r = run(prog, state, left, scan, right, lim)
        if r[0] == "done":
            emit(prog)
            return
        _, slot, left, scan, right = r
        if remaining == 0:
            raise OverflowError("remaining_slots underflow")
        for ins in fills(prog, slot):
            prog[slot] = ins
            if remaining - 1 == 0:
                emit(prog)
            else:
                grow(prog, slot[0], left, scan, right, remaining - 1)
            del prog[slot]

    # the first filled slot is B0: the machine is in state B on a blank cell after A0 = 1RB
    base = {(0, 0): (1, True, 1)}
    for ins in fills(base, (1, 0)):
        prog = dict(base)
        prog[(1, 0)] = ins
        grow(prog, 1, [1], 0, [], budget)
    return out
