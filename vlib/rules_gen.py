#!/usr/bin/env python3
"""case generator for the rules port: python3 gen.py <category> > cases"""
import itertools, random, sys

SEED = 0   # set by vlib/c11.py from VERIF_SEED

U64 = 2**64 - 1
EDGES = [2**31 - 2, 2**31 - 1, 2**31, 2**31 + 1, 2**32 - 1, 2**32, 2**32 + 1,
         2**63 - 1, 2**63, 2**63 + 1, U64 - 1, U64]

def cs(l, r):
    return ",".join(map(str, l)) + ";" + ",".join(map(str, r))

def mkrule(v1, v2, v3, v4):
    return "mkrule " + " ".join(cs(*v) for v in (v1, v2, v3, v4))

def colours(rng, n):
    """n block colours, adjacent distinct, farthest nonzero"""
    out = []
    for i in range(n):
        while True:
            c = rng.randrange(0, 5)
            if (out and out[-1] == c) or (i == n - 1 and c == 0):
                continue
            out.append(c)
            break
    return out

def tape(rng, lc, rc, cols=None):
    if cols is None:
        L = colours(rng, len(lc)); R = colours(rng, len(rc))
    else:
        L, R = cols
    scan = rng.randrange(0, 5)
    return "%d|%s|%s" % (scan, ",".join("%d^%d" % b for b in zip(L, lc)),
                         ",".join("%d^%d" % b for b in zip(R, rc)))

def op(d):
    if isinstance(d, tuple):
        q, r = d
        return "*%d%+d" % (q, r)
    return "%+d" % d

def rule(entries):
    """entries: list of ((side, idx), d)"""
    if not entries:
        return "-"
    return " ".join("%s%d:%s" % ("R" if s else "L", i, op(d)) for (s, i), d in entries)

FIX_COLS = {0: [], 1: [2], 2: [2, 3]}

def small_tape(lc, rc, scan=0):
    L = [1, 2][:len(lc)]; R = [3, 4][:len(rc)]
    return "%d|%s|%s" % (scan, ",".join("%d^%d" % b for b in zip(L, lc)),
                         ",".join("%d^%d" % b for b in zip(R, rc)))

def gen_mk_small():
    # every single block, counts 0..12, once on each side
    rng = random.Random(SEED * 1000 + 1)
    for a, b, c, d in itertools.product(range(13), repeat=4):
        if (a + b + c + d) % 2:
            yield mkrule(([a], []), ([b], []), ([c], []), ([d], []))
        else:
            yield mkrule(([], [a]), ([], [b]), ([], [c]), ([], [d]))
    # arithmetic progressions, two blocks, all side layouts
    progs = [(s, d) for s in range(1, 13) for d in range(-6, 7) if s + 3 * d >= 0]
    for (s1, d1), (s2, d2) in itertools.product(progs, repeat=2):
        v = [[s1 + k * d1, s2 + k * d2] for k in range(4)]
        lay = (s1 + s2 + d1 + d2) % 3
        if lay == 0:
            yield mkrule(*[(x, []) for x in v])
        elif lay == 1:
            yield mkrule(*[([], x) for x in v])
        else:
            yield mkrule(*[([x[0]], [x[1]]) for x in v])
    # 2+2 blocks sampled, one entry perturbed sometimes
    for _ in range(20000):
        bl = [rng.choice(progs) for _ in range(4)]
        v = [[s + k * d for (s, d) in bl] for k in range(4)]
        if rng.random() < 0.3:
            v[rng.randrange(4)][rng.randrange(4)] += rng.choice([-1, 1, 2])
            v = [[max(0, x) for x in row] for row in v]
        yield mkrule(*[(x[:2], x[2:]) for x in v])

def gen_apply_small():
    # exhaustive 1+1, 0+2, 2+0: counts 1..12, diffs -6..6 (0 = Plus(0) entry present)
    for shape in ((1, 1), (0, 2), (2, 0)):
        idx = [(False, i) for i in range(shape[0])] + [(True, i) for i in range(shape[1])]
        for c1, c2, d1, d2 in itertools.product(range(1, 13), range(1, 13), range(-6, 7), range(-6, 7)):
            cnt = [c1, c2]
            t = small_tape(cnt[:shape[0]], cnt[shape[0]:])
            r = rule(list(zip(idx, (d1, d2))))
            yield "applyrule %s %s" % (t, r)
            if shape == (1, 1):
                yield "countapps %s %s" % (t, r)

def gen_apply_small22():
    rng = random.Random(SEED * 1000 + 2)
    for n in range(60000):
        nl, nr = rng.randrange(0, 3), rng.randrange(0, 3)
        lc = [rng.randrange(1, 13) for _ in range(nl)]
        rc = [rng.randrange(1, 13) for _ in range(nr)]
        idx = [(False, i) for i in range(nl)] + [(True, i) for i in range(nr)]
        ent = [(k, rng.randrange(-6, 7)) for k in idx if rng.random() < 0.8]
        rng.shuffle(ent)
        t = tape(rng, lc, rc)
        yield "%s %s %s" % ("applyrule" if n % 3 else "countapps", t, rule(ent))

def big_count(rng):
    k = rng.random()
    if k < 0.35:
        return rng.randrange(1, 2**62)
    if k < 0.55:
        return max(0, min(U64, rng.choice(EDGES) + rng.randrange(-3, 4)))
    if k < 0.75:
        return rng.randrange(1, 2**rng.randrange(1, 64))
    return rng.randrange(0, 50)

def big_diff(rng):
    k = rng.random()
    if k < 0.5:
        return rng.choice([-1, 1]) * rng.randrange(0, 2**20 + 1)
    if k < 0.7:
        return rng.randrange(-8, 9)
    if k < 0.85:
        return rng.choice([-2**31, -2**31 + 1, 2**31 - 1, 2**31 - 2, -2**30, 2**30])
    return rng.choice([-1, 1]) * rng.randrange(0, 2**31)

def gen_apply_big():
    rng = random.Random(SEED * 1000 + 3)
    for n in range(90000):
        nl, nr = rng.randrange(0, 4), rng.randrange(0, 4)
        idx = [(False, i) for i in range(nl)] + [(True, i) for i in range(nr)]
        counts = {k: big_count(rng) for k in idx}
        ent = {k: big_diff(rng) for k in idx if rng.random() < 0.8}
        mode = rng.randrange(8)
        dec = [k for k in ent if ent[k] < 0]
        if mode == 0 and dec:
            # ties: same number of applications on every decreasing block
            times = rng.choice([1, 2, 3, rng.randrange(1, 2**30), rng.randrange(1, 2**40)])
            for k in dec:
                a = -ent[k]
                rem = rng.choice([a, rng.randrange(1, a + 1)])
                counts[k] = min(U64, times * a + rem)
        elif mode == 1 and dec:
            # exact multiples
            for k in dec:
                counts[k] = min(U64, -ent[k] * rng.choice([1, 2, 3, rng.randrange(1, 2**32)]))
        elif mode == 2 and dec:
            # count = |diff| (+1, -1)
            for k in dec:
                counts[k] = max(0, -ent[k] + rng.choice([0, 1, 1, -1, 2]))
        elif mode == 3 and dec:
            # huge times against a growing block: checked_mul / checked_add overflow
            k0 = dec[0]
            ent[k0] = rng.choice([-1, -2, -3])
            counts[k0] = rng.choice([2**62, 2**63, U64, 2**44 + 5, rng.randrange(2**40, 2**64)])
            for k in ent:
                if k != k0 and ent[k] >= 0:
                    ent[k] = rng.choice([1, 2, 2**20, 2**31 - 1, rng.randrange(1, 2**31)])
                    counts[k] = rng.choice([counts[k], U64 - rng.randrange(0, 2**45), 0, 1])
        elif mode == 4 and len(dec) >= 2:
            # second decreasing block runs short (checked_sub) or lands exactly
            k0, k1 = dec[0], dec[1]
            counts[k0] = rng.randrange(1, 2**40)
            a0 = -ent[k0]
            times = counts[k0] // a0 - (0 if counts[k0] % a0 else 1)
            if times > 0:
                counts[k1] = min(U64, max(0, -ent[k1] * times + rng.choice([-1, 0, 1, 2, -ent[k1], -ent[k1] + 1])))
        lc = [counts[(False, i)] for i in range(nl)]
        rc = [counts[(True, i)] for i in range(nr)]
        items = list(ent.items())
        if rng.random() < 0.3:
            rng.shuffle(items)
        if rng.random() < 0.05 and items:
            items.append((items[0][0], big_diff(rng)))      # duplicate key: later wins
        t = tape(rng, lc, rc)
        yield "%s %s %s" % ("applyrule" if n % 4 else "countapps", t, rule(items))

def gen_mk_big():
    rng = random.Random(SEED * 1000 + 4)
    for n in range(80000):
        lens = []
        for v in range(4):
            lens.append((rng.randrange(0, 5), rng.randrange(0, 5)))
        if rng.random() < 0.6:
            lens = [lens[0]] * 4
        nl = max(l for l, _ in lens); nr = max(r for _, r in lens)
        cols = []
        for b in range(nl + nr):
            k = rng.randrange(10)
            if k < 4:      # additive, maybe straddling i32
                d = big_diff(rng) if rng.random() < 0.7 else rng.choice(
                    [2**31, -2**31 - 1, 2**32, -2**32, 2**31 + 1, 2**33, 2**62])
                lo = max(0, -3 * d)
                hi = U64 - max(0, 3 * d)
                if lo > hi:
                    d = 1; lo = 0; hi = U64 - 3
                s = rng.choice([lo, hi, rng.randrange(lo, hi + 1), min(hi, lo + rng.randrange(0, 100)),
                                max(lo, min(hi, rng.choice(EDGES)))])
                col = [s + i * d for i in range(4)]
            elif k < 7:    # multiplicative
                q = rng.choice([1, 2, 3, 4, 10, rng.randrange(1, 2**10)])
                a = rng.choice([0, 1, 2, 3, rng.randrange(1, 2**12), rng.randrange(1, 2**28)])
                r = rng.randrange(0, a) if a > 0 and rng.random() < 0.7 else rng.choice([0, 1, a])
                col = [a]
                for i in range(3):
                    col.append(col[-1] * q + r)
                if rng.random() < 0.3:
                    col[rng.randrange(4)] += rng.choice([-1, 1])
            elif k < 8:    # constant
                c = big_count(rng)
                col = [c] * 4
            elif k < 9:    # F6 witnesses: differences equal modulo 2^32
                s = rng.randrange(0, 100)
                col = [s, s + 2**32 + 1 * rng.randrange(0, 2), s + 2**33, s + 3 * 2**32]
            else:          # junk
                col = [big_count(rng) for _ in range(4)]
            col = [max(0, min(U64, x)) for x in col]
            cols.append(col)
        vs = []
        for v in range(4):
            l = [cols[b][v] for b in range(nl)][:lens[v][0]]
            r = [cols[nl + b][v] for b in range(nr)][:lens[v][1]]
            vs.append((l, r))
        yield mkrule(*vs)

def gen_panic():
    rng = random.Random(SEED * 1000 + 5)
    for n in range(40000):
        nl, nr = rng.randrange(0, 3), rng.randrange(0, 3)
        lc = [rng.randrange(0, 30) for _ in range(nl)]
        rc = [rng.randrange(0, 30) for _ in range(nr)]
        keys = [(rng.random() < 0.5, rng.randrange(0, 4)) for _ in range(rng.randrange(1, 5))]
        ent = []
        for k in keys:
            z = rng.random()
            if z < 0.25:
                d = (rng.randrange(-3, 6), rng.randrange(-3, 6))
            else:
                d = rng.randrange(-6, 7)
            ent.append((k, d))
        if rng.random() < 0.1:
            ent.append(((rng.random() < 0.5, rng.choice([2**32, 2**63, U64])), rng.randrange(-3, 4)))
        t = tape(rng, lc, rc)
        yield "%s %s %s" % ("applyrule" if n % 2 else "countapps", t, rule(ent))
    # malformed / boundary arguments
    yield "applyrule 0|1^18446744073709551616| L0:-1"
    yield "applyrule 0|1^18446744073709551615| L0:-1"
    yield "applyrule 0|1^5| L18446744073709551616:-1"
    yield "applyrule 0|1^5| L0:-2147483648"
    yield "applyrule 0|1^5| L0:+2147483647"
    yield "applyrule 0|1^5| L0:+2147483648"
    yield "applyrule 0|1^5| L0:*2147483648+0"
    yield "applyrule 0|1^5| L0:*-2147483648-2147483648"
    yield "applyrule 0|1^5| L0:5"
    yield "applyrule 0|1^5| X0:+5"
    yield "applyrule 0|1^5 L0:+5"
    yield "applyrule 0|0^5| L0:-1"
    yield "applyrule 0|1^5,1^5| L0:-1"
    yield "applyrule 0|1^5,0^5,1^3| L0:-1 L2:-1 L1:+7"
    yield "mkrule 1;2 1;2 1;2"
    yield "mkrule 18446744073709551616; 1; 1; 1;"
    yield "mkrule 18446744073709551615; 18446744073709551614; 18446744073709551613; 18446744073709551612;"
    yield "mkrule 0; 18446744073709551615; 0; 18446744073709551615;"

GENS = {"mk_small": gen_mk_small, "apply_small": gen_apply_small, "apply_small22": gen_apply_small22,
        "apply_big": gen_apply_big, "mk_big": gen_mk_big, "panic": gen_panic}

if __name__ == "__main__":
    out = sys.stdout
    for line in GENS[sys.argv[1]]():
        out.write(line + "\n")
