"""C18: symbolic count algebra (tm/num.py).

Two parts (DESIGN.md §5 C18):

* translator + proof: tools/extract_num.py re-reads the literal residue tables / special cases of
  `Exp.__mod__` and `exp_mod_special_cases` on every run and writes one Lean theorem per literal
  (BB/Generated/NumTables.lean); `lake build BB.Generated.NumTables` must succeed and the axiom
  audit must be clean.  A failing theorem is turned into a concrete (base, exponent, modulus) by
  brute force and confirmed on the real code.
* translation validation: tools/num_harness.py (CPython 3.12, the real tm/num.py) applies every
  operator to seeded expression trees; the compiled Lean model (`numcheck`, BB/Model/NumEval.lean)
  evaluates operands and result and judges each returned value.  A wrong value is attributed to the
  num.py return site that produced it; sites listed in /verif/known_findings_c18.json are reported
  as KNOWN-FINDING, anything else is a VIOLATION.

* the `%` operator as a whole (`int/Add/Mul/Div/Exp.__mod__`, `find_period`, `exp_mod_special_cases`) is
  modelled in Lean (`modE`, BB/Model/NumModTree.lean; the literal tables come from the generated
  BB/Generated/NumTablesData.lean) and proved to return only true residues for every tree
  (`modE_correct_partial`, BB/Props/C18.lean); every `a % m` of the generated stream is also
  compared, real outcome against model (`nummod` correspondence, `nummod_pass`).

The unbounded algebraic claim is NOT proved for the other operators: only the tables and `%` are
theorems, the rest of the algebra is validated per answer.  The known-findings file is never written
at check time (see `regenerate_known`, an implementation-time tool run by hand).
"""
import collections
import json
import os
import re
import subprocess
import sys
import time

from . import core

OWN_REPLAY = True
LEVEL = "translation_validation"

TOOLS = os.path.join(core.VERIF, "tools")
EXTRACT = os.path.join(TOOLS, "extract_num.py")
HARNESS = os.path.join(TOOLS, "num_harness.py")
KNOWN_PATH = os.path.join(core.VERIF, "known_findings_c18.json")
WORK = os.path.join(core.CACHE, "c18" + core.SLOT)
PY312 = {"PYENV_VERSION": "3.12.1"}

# (pairs, shards): the shard count is part of the input definition (seed of shard k = seed*1000+k),
# so it is fixed per tier and independent of the machine
TIERS = {"quick": (3200, 8, 0), "thorough": (40000, 16, 0),
         # generation of the known-findings list only (never a check tier): other streams of the same seeds
         "deep": (200000, 80, 100)}
MY_LEAN_FILES = ["BB/Generated/NumTables.lean", "BB/Lemmas/PowMod.lean", "BB/Model/NumEval.lean",
                 "BB/Audit/C18.lean", "BB/Driver/OpsPy.lean", "BB/Model/NumMod.lean", "BB/Lemmas/NumMod.lean",
                 "BB/Props/C18.lean", "BB/Audit/C18h.lean", "BB/Generated/NumTablesData.lean",
                 "BB/Model/NumModTree.lean", "BB/Lemmas/NumModTree.lean"]


def py_env():
    env = dict(os.environ)
    env.update(PY312)
    env["NUM_PY_PATH"] = num_py_path()     # every tool reads the same tm/num.py (VERIF_REPO in development)
    return env


def python312():
    """the CPython >= 3.12 that parses tm/num.py.  A pyenv shim prepends the *selected* version's bin
    directory to PATH, so a child `python3` of a 3.11 process is 3.11 whatever PYENV_VERSION says:
    resolve the interpreter by path."""
    import shutil
    roots = [os.environ.get("PYENV_ROOT"), os.path.expanduser("~/.pyenv"), "/root/.pyenv"]
    for r in roots:
        if r:
            c = os.path.join(r, "versions", "3.12.1", "bin", "python3")
            if os.path.exists(c):
                return c
    for name in ("python3.12", "python3.13"):
        c = shutil.which(name)
        if c:
            return c
    if sys.version_info >= (3, 12):
        return sys.executable
    for r in roots:
        if r and os.path.exists(os.path.join(r, "shims", "python3")):
            return os.path.join(r, "shims", "python3")
    return "python3"


def num_py_path():
    return os.environ.get("NUM_PY_PATH") or os.path.join(core.REPO, "tm", "num.py")


def key_string(k):
    return f"{k['op']}|{k['function']}|{k['line_text']}|{k['shape'][0]},{k['shape'][1]}"


# ------------------------------------------------------------------ part 1: tables

def run_extractor():
    p = subprocess.run([python312(), EXTRACT], capture_output=True, text=True, env=py_env(), timeout=300)
    try:
        summary = json.loads(p.stdout.strip().split("\n")[-1]) if p.stdout.strip() else {}
    except json.JSONDecodeError:
        summary = {}
    return p.returncode, summary, p.stderr[-2000:]


def probe(expr):
    """evaluate an expression on the real module (e.g. `make_exp(2, 4) % 30`)"""
    try:
        p = subprocess.run([python312(), HARNESS, "--probe", expr], capture_output=True, text=True,
                           env=py_env(), timeout=120)
        return p.stdout.strip().split("\n")[-1] if p.stdout.strip() else "?"
    except Exception as e:      # noqa: BLE001
        return f"?{type(e).__name__}"


def counterexample(claim):
    """a concrete (base, exponent, modulus) refuting the claim of a generated theorem, or None"""
    b, m = claim.get("b"), claim.get("m")
    if "generic" in claim or b is None:
        return None
    if "ite" in claim:
        K, R, A, B = claim["ite"]
        for e in range(2, 2 + 4 * K + 4):
            said = A if e % K == R else B
            if pow(b, e, m) != said:
                return {"base": b, "exponent": e, "modulus": m, "table_says": said, "true_value": pow(b, e, m)}
        return None
    if "reduce" in claim:
        Q = claim["reduce"]
        for e in range(2, min(4 * Q + 64, 2_000_000)):       # the code asserts 1 < exp
            if pow(b, e, m) != pow(b, e % Q, m):
                return {"base": b, "exponent": e, "modulus": m, "reduced_exponent": e % Q,
                        "table_says": pow(b, e % Q, m), "true_value": pow(b, e, m)}
        return None
    v, cond = claim["v"], claim.get("cond")
    if cond is None:
        es = range(2, 2 + 2 * m + 8)
    else:
        K, r = cond
        if not 0 <= r < K:
            return None
        first = r if r >= 2 else r + K * (-(-(2 - r) // K))
        es = [first + j * K for j in range(4)]
    symbolic = str(claim.get("where", "")).startswith("exp_mod_special_cases")
    for e in es:
        if symbolic and e < 6:
            continue            # the table is only consulted for a symbolic exponent: probe with (e-4) + 2**2
        if pow(b, e, m) != v:
            return {"base": b, "exponent": e, "modulus": m, "table_says": v, "true_value": pow(b, e, m),
                    "symbolic_exponent": symbolic}
    return None


def check_tables(rep):
    """returns (ok, summary)"""
    rc, summary, err = run_extractor()
    if rc != 0 or "theorems" not in summary:
        rep.violation("translator-failed", {"tool": EXTRACT, "source": num_py_path(),
                                            "error": summary.get("error", err)}, found_input=False)
        rep.cov.update({"obligations": 0, "discharged": 0})
        return False, summary
    thms = summary["theorems"]
    names = [t["name"] for t in thms]
    rep.cov["obligations"] = len(names)
    rep.cov["table_theorems_by_kind"] = summary.get("by_kind", {})
    rep.cov["translator_notes"] = summary.get("notes", [])
    rep.cov["translator_unmodelled_statements"] = summary.get("unmodelled_statements", [])
    rep.cov["num_py_sha256"] = summary.get("sha256")
    rep.cov["checker_cmd"] = ("cd /verif && PYENV_VERSION=3.12.1 python3 tools/extract_num.py && cd lean && "
                              "lake build BB.Generated.NumTables && lake env lean BB/Audit/C18.lean")
    with core.Lock("lean"):
        t = time.time()
        p = core.run(["lake", "build", "BB.Generated.NumTables"], cwd=core.LEAN, check=False, timeout=3000)
        core.log(f"[build] BB.Generated.NumTables {time.time()-t:.1f}s rc={p.returncode}")
    if p.returncode != 0:
        out = p.stdout + p.stderr
        failed = []
        for mm in re.finditer(r"NumTables\.lean:(\d+):(\d+):?\s*(?:error)?", out):
            ln = int(mm.group(1))
            for t_ in thms:
                if t_["lean_first"] <= ln <= t_["lean_last"] and t_ not in failed:
                    failed.append(t_)
        if not failed:
            rep.violation("lean-build-failed", {"theorem": "BB.Generated.NumTables", "output": out[-3000:]},
                          found_input=False)
        for t_ in failed:
            cex = counterexample(t_["claim"])
            detail = {"theorem": t_["name"], "num_py_line": t_["line"], "source_line": t_["source"],
                      "statement": t_["statement"], "num_py": summary.get("source")}
            if cex is not None:
                detail["counterexample"] = cex
                detail["case"] = f"({cex['base']} ** {cex['exponent']}) % {cex['modulus']}"
                expo = (f"({cex['exponent'] - 4} + make_exp(2, 2))" if cex.get("symbolic_exponent")
                        else str(cex["exponent"]))
                detail["impl_expression"] = f"make_exp({cex['base']}, {expo}) % {cex['modulus']}"
                detail["impl_returns"] = probe(detail["impl_expression"])
            rep.violation("proof-obligation-failed", detail, found_input=cex is not None)
        rep.cov["discharged"] = len(names) - len(failed)
        return False, summary
    # axiom audit
    res, raw, wanted = core.audit("C18")
    bad = []
    discharged = 0
    for n in names:
        full = "BB.NumTables." + n
        if full not in res:
            bad.append(f"{n}: not audited")
        elif not res[full] <= core.ACCEPTED_AXIOMS:
            bad.append(f"{n}: axioms {sorted(res[full] - core.ACCEPTED_AXIOMS)}")
        else:
            discharged += 1
    if "__error__" in res:
        bad.append("audit file failed to elaborate: " + list(res["__error__"])[0][-1500:])
    for rel in MY_LEAN_FILES:
        path = os.path.join(core.LEAN, rel)
        if os.path.exists(path):
            body = core.strip_comments(open(path).read())
            for mm in core.FORBIDDEN.finditer(body):
                bad.append(f"forbidden token in {rel}: {mm.group(0).strip()}")
    rep.cov["discharged"] = discharged
    rep.cov["theorems"] = {"count": len(names), "names": names, "axioms_used": sorted(
        set().union(*[res.get("BB.NumTables." + n, set()) for n in names]) if names else [])}
    if bad:
        rep.violation("proof-obligation-failed", {"theorems": bad[:40]}, found_input=False)
        return False, summary
    return True, summary


# ------------------------------------------------------------------ part 2: validation

def run_shards(tier, seed, tag="run"):
    pairs, shards, offset = TIERS.get(tier, TIERS["quick"])
    os.makedirs(WORK, exist_ok=True)
    per = (pairs + shards - 1) // shards
    jobs = []
    for k in range(shards):
        base = os.path.join(WORK, f"{tag}-{tier}-{seed}-{k}")
        cmd = [python312(), HARNESS, "--seed", str(seed * 1000 + offset + k), "--pairs", str(per),
               "--out", base + ".cases", "--keys", base + ".json", "--trace", "all"]
        jobs.append((cmd, base))
    running, done = [], []
    todo = list(jobs)
    while todo or running:
        while todo and len(running) < core.NCPU:
            cmd, base = todo.pop(0)
            running.append((subprocess.Popen(cmd, env=py_env(), stdout=subprocess.PIPE, stderr=subprocess.PIPE,
                                             text=True), base))
        pr, base = running.pop(0)
        out, err = pr.communicate(timeout=7200)
        if pr.returncode != 0:
            raise RuntimeError(f"num_harness failed rc={pr.returncode}: {err[-2000:]}")
        done.append(base)
    return done


def merge_stats(total, st):
    for k, v in st.items():
        if isinstance(v, dict):
            d = total.setdefault(k, {})
            for kk, vv in v.items():
                d[kk] = d.get(kk, 0) + vv
        elif isinstance(v, (int, float)) and k != "wall_s":
            total[k] = total.get(k, 0) + v


def judge(bases):
    """run the driver over the shards; returns dict with counts, bad cases (with keys), stats"""
    stats = {}
    verdicts = collections.Counter()
    bads = []          # (key dict, case line, driver answer, num.py line)
    distinct_pairs = set()
    distinct_judged = set()
    total = 0
    samples = []
    protocol_errors = []
    nummod = {"cases": 0, "mismatches": [], "mismatch_count": 0, "outcomes": collections.Counter()}
    for base in bases:
        side = json.load(open(base + ".json"))
        lines = open(base + ".cases").read().split("\n")
        if lines and lines[-1] == "":
            lines.pop()
        merge_stats(stats, side["stats"])
        out = core.run_driver(lines)
        kt, ck, cl = side["key_table"], side["case_key"], side["case_line"]
        ctop = side.get("case_top_line") or [0] * len(ck)
        if not (len(ck) == len(lines) == len(out)):
            raise RuntimeError(f"sidecar / cases / driver length mismatch for {base}")
        total += len(lines)
        nummod_pass(lines, nummod)
        if len(samples) < 6:
            samples += [lines[len(lines) // 3], lines[2 * len(lines) // 3]]
        for i, (l, o) in enumerate(zip(lines, out)):
            tag = o.split(":", 1)[0]
            if tag == "skip":
                verdicts[o] += 1
                continue
            head, text = l.split(" | ", 1)
            if not head.startswith("numcheck mod "):
                sa, sb, _ = text.split(" ; ")
                distinct_pairs.add((sa, sb))
            if tag == "ok":
                verdicts["ok"] += 1
                distinct_judged.add(l)
            elif tag == "bad":
                verdicts["bad"] += 1
                distinct_judged.add(l)
                k = kt[ck[i]] if 0 <= ck[i] < len(kt) else {"op": l.split(" ")[1], "function": "<untraced>",
                                                           "line_text": "", "shape": ["?", "?"]}
                bads.append((k, l, o, (cl[i], ctop[i])))
            else:
                protocol_errors.append({"case": l, "driver": o})
    return {"stats": stats, "verdicts": verdicts, "bads": bads, "pairs": len(distinct_pairs),
            "judged": len(distinct_judged), "total": total, "samples": samples,
            "protocol_errors": protocol_errors, "nummod": nummod}


def nummod_pass(lines, acc):
    """correspondence of the whole `%` operator: for every `numcheck mod` case the REAL outcome of
    `a % m` (the value, or that it raised) against the Lean model `modE` (driver op `nummod`,
    BB/Model/NumModTree.lean; proved to return only true residues in BB/Props/C18.lean)."""
    cases, impl = [], []
    for l in lines:
        if not l.startswith("numcheck mod "):
            continue
        head, text = l.split(" | ", 1)
        sa, sb, sr = text.split(" ; ")
        m = head.split(" ")[2]
        if not m.isdigit() or int(m) <= 0:
            continue
        cases.append(f"nummod {m} | {sa}")
        impl.append("raise" if sr.startswith("!") else sr)
    if not cases:
        return
    model = core.run_driver(cases)
    for c, i, mo in zip(cases, impl, model):
        acc["cases"] += 1
        acc["outcomes"]["raise" if i == "raise" else "value"] += 1
        if i != mo:
            acc["mismatch_count"] += 1
            if len(acc["mismatches"]) < 20:
                acc["mismatches"].append({"case": c, "impl": i, "model": mo})


SELFTEST = [
    ("numcheck add - | + -1 ^ 2 5 ; 3 ; + 2 ^ 2 5", "ok"),
    ("numcheck add - | + -1 ^ 2 5 ; 3 ; + 3 ^ 2 5", "bad:34:35"),
    ("numcheck mod 30 | ^ 2 4 ; 30 ; 15", "bad:16:15"),
    ("numcheck mod 30 | ^ 2 4 ; 30 ; 16", "ok"),
    ("numcheck lt - | + -1 ^ 2 2 ; 6 ; False", "bad:True:False"),
    ("numcheck eq - | 10 ; / + -2 ^ 2 5 3 ; False", "bad:True:False"),
    ("numcheck floordiv - | * 6 ^ 3 4 ; -3 ; * -2 ^ 3 4", "ok"),
    ("numcheck sub - | ^ 2 5 ; ^ 2 7 ; * 3 ^ 2 -2", "bad:-96:noint"),
    ("numcheck mul - | / + 1 ^ 3 2 5 ; 4 ; 8", "ok"),
    ("numcheck mul - | / + 1 ^ 3 2 4 ; 4 ; 8", "skip:operand-inexact"),
    ("numcheck mul - | ^ 2 5 ; 3 ; !NotImplementedError", "skip:exception"),
    ("numcheck add - | ^ 2 ^ 2 40 ; 3 ; 1", "skip:toobig"),
    ("nummod 30 | ^ 2 4", "16"),
    ("nummod 54 | ^ 2 + 1 ^ 3 4", "52"),               # symbolic exponent 82: literal table of mod 54
    ("nummod 5 | / + 1 ^ 3 2 4", "raise"),              # inexact Div: assert rem == 0
    ("nummod 7 | ^ 5 * -2 ^ 2 3", "raise"),             # assert 1 < exp (sign heuristic)
]


def driver_selftest(rep):
    """the judge must be able to say `bad`: fixed cases with known verdicts (non-vacuity of the oracle)"""
    out = core.run_driver([c for c, _ in SELFTEST], jobs=1)
    wrong = [{"case": c, "expected": w, "driver": o} for (c, w), o in zip(SELFTEST, out) if o != w]
    if wrong:
        rep.violation("driver-selftest", {"mismatches": wrong}, found_input=False)
    rep.cov["driver_selftest_cases"] = len(SELFTEST)
    return not wrong


EXPMOD_HARNESS = os.path.join(core.VERIF, "tools", "expmod_harness.py")


def expmod_pass(rep, tier, seed):
    """`Exp.__mod__` for an integer exponent: real tm/num.py vs the Lean model `expModInt`
    (BB/Model/NumMod.lean, proved correct for ALL inputs in BB/Props/C18.lean), plus Python's own
    pow(b, e, m) as the judge of every value the real code returns."""
    import random
    rng = random.Random(seed * 9176 + 18)
    n = 60000 if tier == "thorough" else 12000
    mods_special = ([1, 2, 3, 4, 6, 8, 10, 12, 16, 30, 32, 54, 64, 162, 486, 1458, 4374, 2 ** 10, 2 ** 16, 2 ** 20, 3 ** 7, 10 ** 4,
                     2 * 3 ** 9, 97, 101, 1001, 65537, 2 ** 24 - 3, 2 ** 24, 2 ** 24 + 1, 2 * 3 ** 15])
    cases = set()
    for b in range(2, 13):
        for m in list(range(1, 70)) + mods_special:
            for e in (2, 3, 4, 5, 6, 7, 8, 17, 40, 1000):
                cases.add((b, e, m))
    while len(cases) < n:
        b = rng.choice([2, 2, 3, 3, 5, 6, 7, 10, rng.randrange(2, 40)])
        e = rng.choice([rng.randrange(2, 50), rng.randrange(2, 5000), rng.randrange(2, 10 ** 12)])
        r = rng.random()
        m = (rng.randrange(1, 200) if r < 0.45 else rng.choice(mods_special) if r < 0.6 else
             2 ** rng.randrange(1, 22) if r < 0.7 else 2 * 3 ** rng.randrange(0, 12) if r < 0.78 else
             rng.randrange(1, 200000))
        cases.add((b, e, m))
    # exponent 1 is outside the library (the constructors fold it) but the function accepts it;
    # exponent 0 cannot even be constructed (`Exp.__init__` takes log10 of it)
    for b, m in ((3, 3), (4, 2), (5, 7), (2, 6), (9, 1)):
        cases.add((b, 1, m))
    cases = sorted(cases)
    lines = [f"expmod {b} {e} {m}" for b, e, m in cases]
    p = subprocess.run([python312(), EXPMOD_HARNESS, "--num-py", num_py_path()], input="\n".join(lines) + "\n",
                       env=py_env(), capture_output=True, text=True, timeout=3600)
    if p.returncode != 0:
        raise RuntimeError("expmod_harness failed: " + p.stderr[-2000:])
    impl = p.stdout.split("\n")
    if impl and impl[-1] == "":
        impl.pop()
    model = core.run_driver(lines)
    if len(impl) != len(lines):
        raise RuntimeError("expmod_harness: line count")
    mism = wrong = raised = 0
    kinds = collections.Counter()
    for (b, e, m), l, i, mo in zip(cases, lines, impl, model):
        canon = "raise" if i.startswith("raise:") else i
        kinds["raise" if canon == "raise" else "value"] += 1
        if canon != mo:
            mism += 1
            if mism <= 20:
                rep.violation("correspondence", {"case": l, "impl": i, "model": mo}, found_input=False)
        if canon != "raise" and e >= 1:
            try:
                true = pow(b, e, m)
            except ValueError:
                continue
            if i != str(true):
                wrong += 1
                if wrong <= 20:
                    rep.violation("oracle", {"case": l, "impl_value": i, "true_value": str(true),
                                             "what": f"({b} ** {e}) % {m}: Exp.__mod__ returned a wrong residue",
                                             "impl_expression": f"Exp({b}, {e}).__mod__({m})"})
        elif canon == "raise":
            raised += 1
    rep.add_counts(len(lines), len(lines) - raised)
    rep.cov["expmod_cases"] = len(lines)
    rep.cov["expmod_outcomes"] = dict(kinds)
    rep.cov["expmod_correspondence_mismatches"] = mism
    rep.cov["expmod_wrong_residues"] = wrong
    rep.cov["expmod_samples"] = [lines[0], lines[len(lines) // 2], lines[-1]]


def attach_hand_theorems(rep):
    """the hand-written C18 theorems (BB/Props/C18.lean: expModInt_correct, findPeriod_order, ...)
    next to the generated table theorems: built, audited, counted as obligations"""
    if not os.path.exists(os.path.join(core.LEAN, "BB", "Props", "C18.lean")):
        return
    ok, msg = core.build_lean(("bbdriver", "BB.Props.C18"))
    reg_p = os.path.join(core.VERIF, "theorems.json")
    reg = json.load(open(reg_p)).get("C18h", []) if os.path.exists(reg_p) else []
    if not ok:
        rep.violation("lean-build-failed", {"theorem": "BB.Props.C18", "output": msg[-3000:]}, found_input=False)
        rep.cov["obligations"] = rep.cov.get("obligations", 0) + len(reg)
        return
    res, raw, wanted = core.audit("C18h")
    names = sorted(set(wanted) | set(reg))
    bad = []
    good = 0
    for t_ in names:
        if t_ not in res:
            bad.append(f"{t_}: not proved / not audited")
        elif not res[t_] <= core.ACCEPTED_AXIOMS:
            bad.append(f"{t_}: axioms {sorted(res[t_] - core.ACCEPTED_AXIOMS)}")
        else:
            good += 1
    if "__error__" in res:
        bad.append("audit file failed to elaborate: " + list(res["__error__"])[0][-1500:])
    rep.cov["obligations"] = rep.cov.get("obligations", 0) + len(names)
    rep.cov["discharged"] = rep.cov.get("discharged", 0) + good
    rep.cov["hand_written_theorems"] = {t_: sorted(res.get(t_, {"<missing>"})) for t_ in names}
    if bad:
        rep.violation("proof-obligation-failed", {"theorems": bad}, found_input=False)


def load_known_c18():
    if not os.path.exists(KNOWN_PATH):
        return {}
    d = json.load(open(KNOWN_PATH))
    return {f["key"]: f for f in d.get("findings", [])}


def check(rep, tier, seed, replay):
    rep.cov["trusted_base"] = [
        "Lean 4.33 kernel; axioms at most propext, Classical.choice, Quot.sound (#print axioms on every run)",
        "tools/extract_num.py (Python `ast` -> Lean statements): a literal it mis-reads would be proved about the wrong number",
        "Lean compiler (the validation runs the compiled `eval`/`evalFloor` of BB/Model/NumEval.lean)",
        "CPython 3.12.1 (PYENV_VERSION=3.12.1) running the real tm/num.py; tools/num_harness.py serialisation",
        "vlib/c18.py orchestration and classification",
    ]
    rep.assumptions += [
        "only the literal tables of Exp.__mod__ / exp_mod_special_cases are theorems; the algebra (+ - * // % < == **) "
        "is validated per returned answer on the generated inputs, not proved for all inputs",
        "operands above 6000 bits or with an exponent above 2000 are not generated; values above 400000 bits are skipped by the model",
        "a % m: proved for all trees about the Lean model modE (modE_correct_partial, hypothesis expsOk: integer exponents >= 1, "
        "symbolic exponents of value >= 2); model = real code is validated on the generated a % m cases only (nummod "
        "correspondence: value or raised), with Div den <= 0 and float edge cases above 2^53 modelled by convention",
    ]
    ok_tables, summary = check_tables(rep)
    attach_hand_theorems(rep)
    driver_selftest(rep)
    if not replay:
        expmod_pass(rep, tier, seed)

    if replay:
        rp = json.load(open(replay))
        cases = [v["case"] for v in rp.get("violations", []) if str(v.get("case", "")).startswith("numcheck ")]
        os.makedirs(WORK, exist_ok=True)
        src = os.path.join(WORK, "replay.in")
        with open(src, "w") as f:
            f.write("\n".join(cases) + "\n")
        base = os.path.join(WORK, "replay")
        p = subprocess.run([python312(), HARNESS, "--redo", src, "--out", base + ".cases", "--keys", base + ".json"],
                           env=py_env(), capture_output=True, text=True, timeout=3600)
        if p.returncode != 0:
            raise RuntimeError("num_harness --redo failed: " + p.stderr[-2000:])
        bases = [base]
        rep.notes.append(f"replay of {len(cases)} case(s) from {replay}")
    else:
        t = time.time()
        bases = run_shards(tier, seed)
        core.log(f"[c18] harness {time.time()-t:.1f}s")
    t = time.time()
    j = judge(bases)
    core.log(f"[c18] driver {time.time()-t:.1f}s, {j['total']} cases, verdicts ok={j['verdicts']['ok']} bad={j['verdicts']['bad']}")

    known = load_known_c18()
    # A finding is a CALL SITE of tm/num.py (function + source line) returning a wrong value for one
    # class of operator.  The listed keys also carry the operand shapes they were first seen with;
    # the space of (site, shapes) pairs has a long tail (20 million generated cases still add a few),
    # so a wrong value from a listed site and operator class with operand shapes not seen before is
    # the same finding and is reported as such (counted separately); a wrong value from a site that
    # is not listed, or from a listed site under another class of operator, is a VIOLATION.
    OPCLASS = {"le": "lt", "gt": "lt", "ge": "lt", "ne": "eq", "sub": "add"}
    site_ops = {(OPCLASS.get(f["op"], f["op"]), f["function"], f["line_text"]) for f in known.values()}
    new_keys = collections.OrderedDict()
    new_shapes = 0
    for k, line, ans, ln in j["bads"]:
        ks = key_string(k)
        if ks in known:
            rep.known("F18:" + ks, line + "  -> " + ans)
        elif (OPCLASS.get(k["op"], k["op"]), k["function"], k["line_text"]) in site_ops:
            new_shapes += 1
            rep.known("F18:" + "|".join((OPCLASS.get(k["op"], k["op"]), k["function"], k["line_text"])) + "|<operand shapes not seen before>",
                      line + "  -> " + ans)
        else:
            new_keys.setdefault(ks, []).append((k, line, ans, ln))
    rep.cov["wrong_values_from_listed_sites_with_new_operand_shapes"] = new_shapes
    for ks, items in new_keys.items():
        k, line, ans, (ln, top_ln) = items[0]
        _, want, got = (ans.split(":", 2) + ["", ""])[:3]
        rep.violation("oracle", {"case": line, "lean_expected": want, "impl_value": got,
                                 "site": {"function": k["function"], "line_text": k["line_text"], "num_py_line": ln,
                                          "operator_method_returned_at_line": top_ln, "operator": k["op"], "operand_shape": k["shape"]},
                                 "key": ks, "same_key_cases": len(items),
                                 "what": "tm/num.py returned a value whose integer meaning differs from the operation "
                                         "on the operands' integer meanings (Lean `eval`)"})
    for pe in j["protocol_errors"][:5]:
        rep.violation("driver-protocol", pe, found_input=False)
    nm = j["nummod"]
    for mm in nm["mismatches"]:
        rep.violation("correspondence", dict(mm, what="a % m: real tm/num.py against the Lean model modE "
                                                      "(BB/Model/NumModTree.lean)"), found_input=False)
    rep.cov["nummod_cases"] = nm["cases"]
    rep.cov["nummod_correspondence_mismatches"] = nm["mismatch_count"]
    rep.cov["nummod_outcomes"] = dict(nm["outcomes"])

    st = j["stats"]
    judged = j["verdicts"]["ok"] + j["verdicts"]["bad"]
    rep.add_counts(j["total"], j["judged"])
    rep.cov["programs"] = j["pairs"]
    rep.cov["disagreements_checked"] = len(j["bads"])
    rep.cov["disagreements_known"] = len(j["bads"]) - sum(len(v) for v in new_keys.values())
    rep.cov["distinct_known_keys_hit"] = len(rep.known_hits)
    rep.cov["known_keys_listed"] = len(known)
    rep.cov["samples"] = j["samples"][:6]
    rep.cov["rule"] = (
        "seeded expression trees (construction depth <= 4 over Add/Mul/Div/Exp, one base in 2..7 per pair, 10% mixed "
        "bases, literal exponents 2..40, small integer leaves; 15% of the pairs are the same value built two ways) built "
        "only through tm/num.py's own operators; per pair: + - *, // when exact, < <= == != > >=, **2 **3, b**x, and "
        "% m for m = 1..64 plus 10 larger moduli (2^k, 3^k, 10^k, 2*3^k, primes). evaluations = operations executed "
        "(every construction step is itself a case). distinct_nontrivial = distinct (operator, a, b, result) lines where "
        "tm/num.py returned a value and the Lean model evaluated both sides (exceptions and over-size cases excluded). "
        "programs = distinct operand pairs (a, b) of the judged non-% operations (a % m cases are counted in "
        "evaluations, their (a, m) pairs are not counted as programs).")
    rep.cov["judged_results"] = judged
    rep.cov["verdicts"] = dict(j["verdicts"].most_common(12))
    rep.cov["input_distribution"] = {
        "operand_top_level_node_types": st.get("operand_kinds", {}),
        "operand_depths(Num.depth)": st.get("operand_depths", {}),
        "nodes_in_operands": st.get("nodes", {}),
        "operator_counts": st.get("ops", {}),
        "exception_kinds": st.get("exceptions", {}),
        "result_kinds": st.get("result_kinds", {}),
        "pairs_generated": st.get("pairs", 0),
        "equal_value_pairs": st.get("equal_value_pairs", 0),
        "mixed_base_pairs": st.get("mixed_base_pairs", 0),
        "construction_operations": st.get("construct_ops", 0),
    }
    rep.cov["known_findings_file"] = KNOWN_PATH
    rep.notes.append("level: the table theorems are proofs (translator-generated, kernel-checked); the operator algebra is "
                     "translation validation only")


# ------------------------------------------------------------------ implementation-time tool

def categorize(k):
    fn, text, op = k["function"], k["line_text"], k["op"]
    if fn == "Num.__eq__":
        return "eq-identity: Num.__eq__ is object identity, equal values built differently compare unequal"
    if fn == "add_exponents" or "diff_exp" in text:
        return "add_exponents: exponent difference handled wrongly (negative difference / float)"
    if op in ("lt", "le", "gt", "ge", "eq", "ne"):
        return "comparison-heuristic: ordering shortcut that assumes an Exp term dominates / ignores sign"
    if op == "mod":
        return "mod: residue computed from a malformed or mis-reduced operand"
    if op == "floordiv" or "make_div" in text or fn.startswith("Div."):
        return "div-arithmetic: Div built or combined without checking exact divisibility / sign of divisor"
    if op == "pow":
        return "pow: power of an expression"
    return "arithmetic: + - * result with the wrong integer value"


def regenerate_known(seeds=range(10), tiers=("quick", "thorough", "deep")):
    """IMPLEMENTATION-TIME ONLY (never called by check): multi-seed run on the current tree, every
    distinct failing return-site key with one concrete witness -> known_findings_c18.json"""
    found = collections.OrderedDict()
    counts = collections.Counter()
    per_seed_new = []
    for tier in tiers:
        for seed in seeds:
            bases = run_shards(tier, seed, tag="gen")
            j = judge(bases)
            new = 0
            for k, line, ans, ln in j["bads"]:
                ks = key_string(k)
                counts[ks] += 1
                if ks not in found:
                    new += 1
                    found[ks] = {"key": ks, "op": k["op"], "function": k["function"], "line_text": k["line_text"],
                                 "shape": k["shape"], "num_py_line_at_generation": ln[0], "category": categorize(k),
                                 "witness": line, "witness_verdict": ans, "first_seen": f"{tier}/seed{seed}"}
            per_seed_new.append((tier, seed, j["total"], len(j["bads"]), new))
            core.log(f"[gen] {tier} seed {seed}: {j['total']} cases, {len(j['bads'])} bad, {new} new keys, total {len(found)}")
            for b in bases:
                for ext in (".cases", ".json"):
                    if os.path.exists(b + ext):
                        os.remove(b + ext)
    for ks, f in found.items():
        f["hits_in_generation_run"] = counts[ks]
    doc = {
        "_comment": "C18 known findings: return sites of tm/num.py that returned a wrong value in the generation run "
                    "(seeds 0..9: the quick and thorough check tiers plus a 200000-pair generation-only run per seed, after the F7/F8 fix commits). Key = operator | function | "
                    "source line text | top-level operand types. Generated ONCE by vlib/c18.py regenerate_known at "
                    "implementation time; never written at check time. A wrong value from a site/shape not listed "
                    "here is a VIOLATION.",
        "generation": [{"tier": t, "seed": s, "cases": c, "bad": b, "new_keys": n} for t, s, c, b, n in per_seed_new],
        "findings": list(found.values()),
    }
    with open(KNOWN_PATH, "w") as f:
        json.dump(doc, f, indent=1)
    return doc


if __name__ == "__main__":
    if len(sys.argv) > 1 and sys.argv[1] == "--regenerate-known-findings":
        tiers = tuple(sys.argv[2].split(",")) if len(sys.argv) > 2 else ("quick", "thorough", "deep")
        d = regenerate_known(tiers=tiers)
        print(len(d["findings"]), "keys")
    else:
        print("usage: python3 -m vlib.c18 --regenerate-known-findings [quick,thorough]   (implementation time only)")
