"""C08: block macro machine simulates the base machine exactly."""
from .macrosim import check_sim
LEVEL = "proof"


def check(rep, tier, seed, replay):
    check_sim(rep, "C08", tier, seed)
