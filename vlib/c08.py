"""C08: block macro machine simulates the base machine exactly."""
import collections
import os
import random
from . import core
from .macrosim import check_sim
LEVEL = "proof"


def opt_block_ref(prog, steps):
    """src/blocks.rs opt_block re-read on plain cells (no run-length tape): the cycle structure is
    the compressed tape's, so the reference keeps blocks as [colour, count] lists only to count them."""
    rows = [r.split(" ") for r in prog.split("  ")]

    def get(q, c):
        if q >= len(rows) or c >= len(rows[q]) or rows[q][c] == "...":
            return None
        s = rows[q][c]
        return int(s[0]), s[1] == "R", ord(s[2]) - 65

    def run(n, measure):
        l, r, scan, q = [], [], 0, 0          # spans nearest-first
        steps_done, maxb, maxstep = 0, 0, 0
        for _ in range(n):
            ins = get(q, scan)
            if ins is None:
                return None
            color, shift, nq = ins
            same = q == nq
            pull, push = (r, l) if shift else (l, r)
            if measure and same and scan == 0 and not pull:
                return None
            steps_done += 1
            b = len(l) + len(r)
            if b > maxb:
                maxb, maxstep = b, steps_done
            # Tape::step
            stepped = 1
            if pull and same and pull[0][0] == scan:
                stepped += pull[0][1]
                pull.pop(0)
            if not pull:
                nscan = 0
            else:
                nscan = pull[0][0]
                if pull[0][1] > 1:
                    pull[0][1] -= 1
                else:
                    pull.pop(0)
            if push and push[0][0] == color:
                push[0][1] += stepped
            elif push or color != 0:
                push.insert(0, [color, stepped])
            scan, q = nscan, nq
        if measure:
            return maxstep
        cells = []
        for c, k in reversed(l):
            cells += [c] * k
        cells.append(scan)
        for c, k in r:
            cells += [c] * k
        return cells

    ms = run(steps, True)
    if ms is None:
        return 1
    tape = run(ms, False)
    opt, minc = 1, 1 + len(tape)
    for k in range(1, len(tape) // 2):
        size = len(tape)
        for i in range(0, len(tape) - 2 * k, k):
            if tape[i:i + k] == tape[i + k:i + 2 * k]:
                size -= k
        if size < minc:
            minc, opt = size, k
    return opt


def check_blocks(rep, tier, seed):
    """Glue below C08 (src/blocks.rs opt_block chooses the block size handed to make_block_macro):
    real code vs compiled model BB/Model/Blocks.lean vs a cell-level re-reading.  No listed property
    is anchored in blocks.rs, so a disagreement here is REPORTED (evidence + note) but is not a
    violation of C08."""
    rng = random.Random(seed * 7919 + 808)
    lines = []
    for p in core.NAMED:
        for n in (40, 300, 1500):
            lines.append(f"optblock {n} | {p}")
    for _ in range(4000 if tier == "thorough" else 700):
        st, co = rng.choice([(2, 2), (3, 2), (2, 3), (4, 2), (2, 4), (3, 3), (5, 2)])
        p = core.rand_prog(rng, st, co, p_undef=rng.choice([0.0, 0.0, 0.0, 0.1]))
        lines.append(f"optblock {rng.choice([10, 50, 200, 600, 1500])} | {p}")
    impl = core.run_harness(lines)
    model = core.run_driver(lines)
    dist = collections.Counter()
    mism, ref_mism = [], []
    for l, a, b in zip(lines, impl, model):
        dist[a if a in ("BAD-OP", "PANIC") else ("1" if a == "1" else "2..4" if int(a) <= 4 else ">4")] += 1
        if a != b:
            mism.append({"case": l, "impl": a, "model": b})
        steps, prog = l.split(" | ")
        if a not in ("BAD-OP", "PANIC") and str(opt_block_ref(prog, int(steps.split(" ")[1]))) != a:
            ref_mism.append({"case": l, "impl": a})
    info = {"cases": len(lines), "answers": dict(dist), "model_mismatches": len(mism),
            "cell_reference_mismatches": len(ref_mism), "first_mismatches": (mism + ref_mism)[:5]}
    if os.path.exists(os.path.join(core.LEAN, "BB", "Audit", "C08b.lean")):
        ok, msg = core.build_lean(("BB.Props.Blocks",))
        res, _, wanted = core.audit("C08b") if ok else ({}, "", [])
        info["auxiliary_theorems"] = {t: sorted(res.get(t, {"<missing>"})) for t in wanted} if ok else "build failed: " + msg[-800:]
        badax = [t for t in wanted if not res.get(t, {"<missing>"}) <= core.ACCEPTED_AXIOMS] if ok else ["build"]
        if badax:
            rep.notes.append(f"glue (src/blocks.rs, outside the listed properties): auxiliary theorems not discharged: {badax[:6]}")
    if mism or ref_mism:
        rep.notes.append(f"glue (src/blocks.rs opt_block, outside the listed properties): {len(mism)} model / {len(ref_mism)} "
                         f"cell-reference disagreement(s), first: {(mism + ref_mism)[0]}")
    rep.cov["glue_blocks_rs"] = info


def check(rep, tier, seed, replay):
    try:
        check_blocks(rep, tier, seed)
    except Exception as e:      # the glue comparison must never take the property's check down
        rep.notes.append(f"glue (src/blocks.rs) comparison did not run: {e!r}")
    check_sim(rep, "C08", tier, seed)
