"""helpers shared by property checks"""
import re
from . import core


def diff_streams(rep, cases, impl, model, what="correspondence"):
    """compare impl and model outputs line by line; record mismatches as violations
    (without a property-level failing input: the caller's oracle decides that)."""
    mism = []
    for c, i, m in zip(cases, impl, model):
        if i != m:
            mism.append({"case": c, "impl": i[:2000], "model": m[:2000]})
    if mism:
        rep.notes.append(f"{what}: {len(mism)} mismatch(es) of {len(cases)}")
    return mism


def unroll_display(s):
    """'1^2 0 [3] 1 2^3' -> (left nearest-first, scan, right nearest-first), trimmed of far blanks"""
    toks = s.split(" ")
    left, right, scan, seen = [], [], None, False
    for t in toks:
        if t.startswith("["):
            scan = int(t[1:-1])
            seen = True
            continue
        if t.endswith(".."):
            cells = []
        elif "^" in t:
            c, n = t.split("^")
            cells = [int(c)] * int(n)
        else:
            cells = [int(t)]
        (right if seen else left).extend(cells)
    left.reverse()
    while left and left[-1] == 0:
        left.pop()
    while right and right[-1] == 0:
        right.pop()
    return left, scan, right


def parse_cfg(s):
    """'q:l1,l2|scan|r1,r2' from the oracle -> (q, left, scan, right) trimmed"""
    q, rest = s.split(":", 1)
    l, sc, r = rest.split("|")
    left = [int(x) for x in l.split(",") if x]
    right = [int(x) for x in r.split(",") if x]
    while left and left[-1] == 0:
        left.pop()
    while right and right[-1] == 0:
        right.pop()
    return int(q), left, int(sc), right


def parse_kv(s):
    """'undfnd steps=5 cycles=5 ...' -> dict with 'result'"""
    parts = s.split(" ")
    d = {"result": parts[0]}
    for p in parts[1:]:
        if "=" in p:
            k, v = p.split("=", 1)
            d[k] = v
    return d
