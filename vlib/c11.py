"""C11: rule arithmetic is exact."""
import itertools
import random
from . import core
from . import rules_gen as G
from .common import diff_streams

LEVEL = "proof"
U64 = 2 ** 64 - 1
I32 = (-2 ** 31, 2 ** 31 - 1)


def parse_counts(s):
    l, r = s.split(";")
    f = lambda x: [int(v) for v in x.split(",")] if x else []
    return f(l), f(r)


def parse_tape(s):
    scan, l, r = s.split("|")
    f = lambda x: [tuple(int(v) for v in b.split("^")) for b in x.split(",")] if x else []
    return int(scan), f(l), f(r)


def show_tape(scan, l, r):
    f = lambda sp: ",".join(f"{c}^{n}" for c, n in sp)
    return f"{scan}|{f(l)}|{f(r)}"


def parse_rule(toks):
    """-> list of ((side, idx), op) in map order, later duplicates win; op = int | (q, r)"""
    d = {}
    if toks == ["-"]:
        return []
    for t in toks:
        k, o = t.split(":")
        key = (k[0] == "R", int(k[1:]))
        if o.startswith("*"):
            body = o[1:]
            j = max(body.rfind("+"), body.rfind("-", 1))
            d[key] = (int(body[:j]), int(body[j:]))
        else:
            d[key] = int(o)
    return sorted(d.items())


def judge_mkrule(args, out):
    """the rule reproduces all four vectors (additive entries exactly; absent = constant)"""
    try:
        cs = [parse_counts(a) for a in args]
    except ValueError:
        return None
    if any(v > U64 for c in cs for side in c for v in side):
        return None
    if out in ("BAD-ARG", "PANIC"):
        return None if out == "BAD-ARG" else "make_rule panicked"
    if out == "none":
        # some column must be neither constant nor an i32 arithmetic progression
        for side in (0, 1):
            n = min(len(c[side]) for c in cs)
            for i in range(n):
                a, b, c, d = (x[side][i] for x in cs)
                if a == b == c == d:
                    continue
                if b - a == c - b == d - c and I32[0] <= b - a <= I32[1]:
                    continue
                return None          # a non-additive column: `none` (or Mult) is allowed
        return "make_rule gave none although every column is constant or an arithmetic progression"
    rule = dict(parse_rule(out.split(" ")))
    for side in (0, 1):
        n = min(len(c[side]) for c in cs)
        for i in range(n):
            a, b, c, d = (x[side][i] for x in cs)
            op = rule.pop((side == 1, i), None)
            if op is None:
                if not a == b == c == d:
                    return f"no entry for column {side},{i} but its counts change"
            elif isinstance(op, tuple):
                q, r = op
                if not (b == q * a + r and c == q * b + r and d == q * c + r):
                    return f"mult entry {op} does not reproduce column {side},{i}"
            else:
                if not (b == a + op and c == b + op and d == c + op):
                    return f"additive entry {op} does not reproduce column {side},{i}"
    if rule:
        return f"entries beyond the vectors: {sorted(rule)}"
    return None


def expected_apply(tape, rule):
    """integer arithmetic: (times or None, new counts dict) for an all-additive, in-range rule"""
    scan, l, r = tape
    get = lambda k: (r if k[0] else l)[k[1]][1]
    dec = [(k, d) for k, d in rule if d < 0]
    if not dec or any(get(k) <= -d for k, d in dec):
        return None, None
    times = min((get(k) - 1) // (-d) for k, d in dec)
    new = {k: get(k) + d * times for k, d in rule}
    if any(v > U64 for v in new.values()):
        return None, None
    return times, new


def judge_apply(op, args, out):
    try:
        tape = parse_tape(args[0])
        rule = parse_rule(args[1:])
    except (ValueError, IndexError):
        return None
    scan, l, r = tape
    plain = all(isinstance(o, int) and I32[0] <= o <= I32[1] for _, o in rule) and \
        all(k[1] < len(r if k[0] else l) for k, _ in rule) and \
        all(n <= U64 for _, n in l + r)
    if out in ("BAD-ARG", "BAD-TAPE"):
        return None
    if not plain:
        return None     # mult entries / missing blocks: outcome (panic or not) is compared with the model only
    if out == "PANIC" or out.startswith("limit"):
        return "panic on an additive rule whose indices all exist"
    times, new = expected_apply(tape, rule)
    if op == "countapps":
        if times is None:
            dec = [(k, d) for k, d in rule if d < 0]
            get = lambda k: (r if k[0] else l)[k[1]][1]
            if not dec or any(get(k) <= -d for k, d in dec):
                return None if out == "none" else f"count_apps should be none, got {out}"
            return None     # overflow only matters to apply_rule
        got = out.split(",")
        return None if got[0] == str(times) else f"count_apps times {got[0]}, largest applicable is {times}"
    res, after = out.split(" -> ")
    if times is None:
        if res != "none":
            return f"rule cannot be applied, result {res}"
        if after != show_tape(*tape):
            return "rule not applied but the tape changed"
        return None
    if res != str(times):
        return f"times {res}, largest applicable is {times}"
    nl = [(c, new.get((False, i), n)) for i, (c, n) in enumerate(l)]
    nr = [(c, new.get((True, i), n)) for i, (c, n) in enumerate(r)]
    if after != show_tape(scan, nl, nr):
        return f"tape after is {after}, difference x times gives {show_tape(scan, nl, nr)}"
    return None


def exhaustive_44(rng, n):
    """sampled rules over up to 4+4 blocks, differences -6..6, counts 1..60"""
    for _ in range(n):
        nl, nr = rng.randrange(0, 5), rng.randrange(0, 5)
        lc = [rng.randrange(1, 61) for _ in range(nl)]
        rc = [rng.randrange(1, 61) for _ in range(nr)]
        idx = [(False, i) for i in range(nl)] + [(True, i) for i in range(nr)]
        ent = [(k, rng.randrange(-6, 7)) for k in idx if rng.random() < 0.8]
        yield "applyrule %s %s" % (G.tape(rng, lc, rc), G.rule(ent))
        # four count vectors produced by applying the differences: make_rule must recover them
        vs = []
        for t in range(4):
            vs.append(([c + t * dict(ent).get((False, i), 0) for i, c in enumerate(lc)],
                       [c + t * dict(ent).get((True, i), 0) for i, c in enumerate(rc)]))
        if all(v >= 0 for c in vs for side in c for v in side):
            yield G.mkrule(*vs)


def check(rep, tier, seed, replay):
    G.SEED = seed
    rng = random.Random(seed * 9176 + 11)
    lines = core.corpus_lines("C11")
    sets = ["apply_small", "apply_small22", "apply_big", "mk_big", "panic"] + (["mk_small"] if tier == "thorough" else [])
    for name in sets:
        part = list(G.GENS[name]())
        if tier != "thorough" and len(part) > 40000:
            part = rng.sample(part, 40000)
        lines += part
    lines += list(exhaustive_44(rng, 100000 if tier == "thorough" else 20000))
    impl = core.run_harness(lines)
    model = core.run_driver(lines)
    mism = diff_streams(rep, lines, impl, model)
    kinds = {}
    distinct = set()
    for line, out in zip(lines, impl):
        parts = line.split(" ")
        op, args = parts[0], parts[1:]
        why = None
        if op == "mkrule" and len(args) == 4:
            why = judge_mkrule(args, out)
            k = "mkrule:" + ("none" if out == "none" else "rule" if out not in ("BAD-ARG", "PANIC") else out)
        elif op in ("applyrule", "countapps") and len(args) >= 2:
            why = judge_apply(op, args, out)
            k = op + ":" + ("none" if out.startswith("none") else out if out in ("PANIC", "BAD-ARG", "BAD-TAPE") else "applied")
        else:
            k = op + ":malformed"
        kinds[k] = kinds.get(k, 0) + 1
        if why:
            rep.violation("oracle", {"case": line, "impl": out, "why": why})
        elif k.endswith(("applied", "rule")):
            distinct.add(line)
    for m in mism[:100]:
        rep.violation("correspondence", m, found_input=False)
    rep.add_counts(len(lines), len(distinct))
    rep.cov["rule"] = ("make_rule / count_apps / apply_rule of the real code (tapes built through Tape::step + set_count) on: exhaustive rules over 1+1, 0+2, 2+0 "
                       "blocks with differences -6..6 and counts 1..12; seeded rules over up to 4+4 blocks, differences -6..6, counts 1..60 with the four "
                       "vectors they generate; seeded counts up to 2^62 and straddling 2^31/2^32/2^63/2^64-1, differences up to 2^20 and the i32 extremes, ties, "
                       "exact multiples, count = |d| and |d|+1; Mult-shaped vectors; a malformed/panic stream (compared with the model only). Oracle: "
                       "unbounded integer arithmetic in the orchestrator (result = count + difference x times, times the largest that keeps every decreasing "
                       "block >= 1, untouched tape when not applied). Distinct non-trivial = distinct cases in which a rule was produced or applied.")
    rep.cov["samples"] = [lines[0], lines[len(lines) // 3], lines[2 * len(lines) // 3], lines[-1]]
    rep.cov["outcome_kinds"] = kinds
    rep.cov["correspondence_mismatches"] = len(mism)
    from . import proofs
    proofs.attach(rep, "C11")
