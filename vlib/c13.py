"""C13: program text <-> compiled form round trip."""
import random
from . import core
from .common import diff_streams

LEVEL = "proof"


def rand_table(rng, S, C, p_undef):
    tab = {}
    rows = []
    for s in range(S):
        row = []
        for c in range(C):
            if rng.random() < p_undef:
                row.append("...")
            else:
                pr, sh, tr = rng.randrange(C), rng.randrange(2), rng.randrange(S)
                tab[(s, c)] = (pr, sh, tr)
                row.append(core.instr_str(pr, sh, tr))
        rows.append(row)
    return core.prog_text(rows), tab


def show_tab(tab):
    return ";".join(f"{q},{c}={pr},{sh},{tr}" for (q, c), (pr, sh, tr) in sorted(tab.items()))


def check(rep, tier, seed, replay):
    rng = random.Random(seed * 104729 + 13)
    lines, expect = [], []   # expect: None = compare impl/model only
    # --- every token
    for c in range(10):
        for sh in "LR":
            for st in range(26):
                tok = f"{c}{sh}{chr(65 + st)}"
                lines.append(f"tok instr | {tok}")
                expect.append(f"{c},{1 if sh == 'R' else 0},{st} -> {tok}")
    lines.append("tok instr | ...")
    expect.append("none -> ...")
    for st in range(26):
        for c in range(10):
            lines.append(f"tok slot | {chr(65 + st)}{c}")
            expect.append(f"{st},{c} -> {chr(65 + st)}{c}")
        lines.append(f"tok state | {chr(65 + st)}")
        expect.append(f"{st} -> {chr(65 + st)}")
    n_tok = len(lines)
    # --- tables
    n_tab = 20000 if tier == "thorough" else 2500
    tabs = 0
    for i in range(n_tab):
        S, C = rng.randrange(1, 27), rng.randrange(1, 11)
        if i % 7 == 0:
            S, C = rng.choice([(26, 10), (1, 1), (1, 10), (26, 1), (2, 2), (5, 2)])
        text, tab = rand_table(rng, S, C, rng.choice([0.0, 0.1, 0.5, 0.9, 1.0]))
        lines.append(f"parsedims {S} {C} | {text}"); expect.append(text)
        lines.append(f"slots | {text}"); expect.append(show_tab(tab))
        lines.append(f"rt2 {S} {C} | {text}"); expect.append(show_tab(tab))
        # show(None) infers the size: equals the text when the last state and colour are mentioned
        ms = max([1] + [max(q, tr) for (q, _), (_, _, tr) in tab.items()]) + 1
        mc = max([1] + [max(c, pr) for (_, c), (pr, _, _) in tab.items()]) + 1
        lines.append(f"parse | {text}")
        expect.append(text if (ms, mc) == (S, C) else None)
        tabs += 1
    # --- malformed stream: equality of outcome (incl. panic) between code and model only
    bad_atoms = ["1RB", "...", "1R", "", " ", "  ", "xRB", "1Rb", "1LA", "..", "12RC", "0L@", "9RZ", ".", "1RB ", "\t"]
    for _ in range(8000 if tier == "thorough" else 4000):
        k = rng.randrange(1, 7)
        t = "".join(rng.choice(bad_atoms) + rng.choice([" ", "  ", "   ", ""]) for _ in range(k))
        if "\n" in t or " | " in t:
            continue
        lines.append(f"parse | {t}"); expect.append(None)
        lines.append(f"slots | {t}"); expect.append(None)
    lines = core.corpus_lines("C13") + lines
    expect = [None] * (len(lines) - len(expect)) + expect
    impl = core.run_harness(lines)
    model = core.run_driver(lines)
    mism = diff_streams(rep, lines, impl, model)
    judged = 0
    for line, out, exp in zip(lines, impl, expect):
        if exp is None:
            continue
        judged += 1
        if out != exp:
            rep.violation("oracle", {"case": line, "impl": out[:600], "expected": exp[:600]})
    for m in mism:
        rep.violation("correspondence", {k: v[:800] for k, v in m.items()}, found_input=False)
    rep.add_counts(len(lines), tabs + n_tok)
    rep.cov["rule"] = ("every instruction token (10 colours x L/R x 26 states), slot token and state letter; random tables "
                       "1..26 states x 1..10 colours with undefined rate 0/.1/.5/.9/1: text -> parse -> print (given size and "
                       "inferred size), parsed slots against the generator's own table, print -> parse again; plus a malformed "
                       "stream compared between code and model only. Non-trivial = distinct tokens + distinct tables.")
    rep.cov["samples"] = [lines[5], lines[n_tok + 3], lines[-1]]
    rep.cov["judged_against_generator"] = judged
    rep.cov["correspondence_mismatches"] = len(mism)
    import os
    if os.path.exists(os.path.join(core.LEAN, "BB", "Props", "C13.lean")):
        from . import proofs
        proofs.attach(rep, "C13")
