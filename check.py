#!/usr/bin/env python3
"""/verif/check.py <ID> [--tier quick|thorough] [--replay FILE]
Decides one property against /repo's current working tree.  See DESIGN.md §7."""
import argparse
import importlib
import os
import sys
import traceback

sys.path.insert(0, os.path.dirname(os.path.abspath(__file__)))
from vlib import core


# files every property's behaviour also depends on, besides its own anchors
COMMON = {"C%02d" % i: ["src/instrs.rs", "src/tape.rs"] for i in range(1, 17)}


def changed_sources(pid):
    """anchor files of the property whose working-tree content differs from the pinned content"""
    import hashlib, json
    pins_p = os.path.join(core.VERIF, "source_pins.json")
    if not os.path.exists(pins_p):
        return []
    pins = json.load(open(pins_p))["files"]
    files = []
    for l in open(os.path.join(core.VERIF, "properties.jsonl")):
        pr = json.loads(l)
        if pr["id"] == pid:
            files = list(pr["anchors"]["files"])
    files += [f for f in COMMON.get(pid, []) if f not in files]
    if any(f.startswith("src/") for f in files) and "src/wrappers.rs" not in files:
        files.append("src/wrappers.rs")
    out = []
    for f in files:
        path = os.path.join(core.REPO, f)
        try:
            h = hashlib.sha256(open(path, "rb").read()).hexdigest()
        except OSError:
            h = "<missing>"
        if f in pins and pins[f] != h:
            out.append(f)
    return out


def extra_rounds(rep, mod, pid, tier, seed):
    """The hand-written model was validated against the pinned sources.  When a source file the
    property is anchored in has changed and the ordinary run found nothing, repeat the run with
    further seeds (other random programs, other slices of the exhaustive spaces) for a bounded
    time: more search where a change was made, the same verdict rules.  Never runs on the pinned
    tree."""
    import time
    ch = changed_sources(pid)
    rep.cov["sources_changed_since_model_was_pinned"] = ch
    if not ch or rep.violations or os.environ.get("VERIF_NO_EXTRA"):
        return
    cap = float(os.environ.get("VERIF_EXTRA_S", "360" if tier == "thorough" else "200"))
    first = max(time.time() - rep.t0, 1.0)
    t0 = time.time()
    rounds = 0
    while not rep.violations and rounds < 12 and (time.time() - t0) + first * 1.1 < cap:
        rounds += 1
        core.log(f"[{pid}] sources changed ({', '.join(ch)}): extra round {rounds}")
        mod.check(rep, tier, seed + 7919 * rounds, None)
    rep.cov["extra_rounds_because_sources_changed"] = rounds


def generic_replay(pid, path):
    """re-run the recorded cases of a replay file on the real code (harness, rebuilt from /repo) and
    on the model; exit 1 (with the VIOLATION line) when a recorded failing answer is reproduced"""
    import json
    rp = json.load(open(path))
    lines = []
    for v in rp.get("violations", []):
        for k in ("case", "replay_line"):
            c = v.get(k)
            if isinstance(c, str) and c and c not in lines and "\n" not in c:
                lines.append(c)
    if not lines:
        print("replay file names no re-runnable case (a broken theorem or correspondence only):")
        for v in rp.get("violations", [])[:5]:
            print("  ", json.dumps(v)[:400])
        print(f"VIOLATION property={pid} replay={path} no-failing-input-found")
        return 1
    impl = core.run_harness(lines)
    try:
        model = core.run_driver(lines)
    except Exception as e:                       # driver ops missing for harness-only lines
        model = ["<driver: %s>" % str(e)[:80]] * len(lines)
    reproduced = 0
    recorded = {v.get("case"): v for v in rp.get("violations", [])}
    for l, i, m in zip(lines, impl, model):
        v = recorded.get(l, {})
        same = ("impl" in v and str(v["impl"])[:2000] == i[:2000])
        reproduced += same
        print(f"case:  {l[:300]}\n  real code now: {i[:300]}\n  model now:     {m[:300]}\n  recorded:      {str(v.get('impl'))[:300]}"
              f"\n  judged by:     {str(v.get('l0') or v.get('replay') or v.get('validator') or v.get('why') or v.get('fields'))[:300]}"
              f"\n  -> {'REPRODUCED' if same else ('differs from model' if i != m else 'not reproduced')}")
    if reproduced or any(i != m for i, m in zip(impl, model)):
        print(f"VIOLATION property={pid} replay={path}")
        return 1
    print(f"OK property={pid} replay: none of {len(lines)} recorded case(s) reproduced")
    return 0


def main():
    ap = argparse.ArgumentParser()
    ap.add_argument("prop")
    ap.add_argument("--tier", default=os.environ.get("VERIF_TIER", "quick"))
    ap.add_argument("--replay", default=None)
    ap.add_argument("--no-build", action="store_true")
    a = ap.parse_args()
    seed = int(os.environ.get("VERIF_SEED", "0") or 0)
    pid = a.prop.upper()
    mod = importlib.import_module(f"vlib.{pid.lower()}")
    rep = core.Report(pid, mod.LEVEL, a.tier, seed)
    try:
        if not a.no_build:
            ok, msg = core.build_harness()
            if not ok:
                rep.violation("harness-build-failed", {"output": msg}, found_input=False)
                return rep.finish()
            gone, err = core.excluded_ops_for(pid)
            if gone:
                rep.violation("harness-build-failed", {"modules": gone, "output": err[-3000:],
                                                       "what": "the harness ops this property's check drives no longer compile against /repo's sources "
                                                               "(an observed function changed its signature): the correspondence cannot be run"},
                              found_input=False)
                return rep.finish()
            ok, msg = core.build_lean(("bbdriver",))
            if not ok:
                rep.violation("lean-build-failed", {"output": msg}, found_input=False)
                return rep.finish()
        if a.replay and not getattr(mod, "OWN_REPLAY", False):
            return generic_replay(pid, a.replay)
        mod.check(rep, a.tier, seed, a.replay)
        extra_rounds(rep, mod, pid, a.tier, seed)
    except core.HarnessHang as h:
        rep.violation("real-code-does-not-return", {"case": h.case, "waited_s": h.waited,
                                                    "what": "the real code (harness, rebuilt from /repo) did not return on this input; "
                                                            "the model does (fuel = the code's own limits): the correspondence is broken"},
                      found_input=False)
    except Exception:
        traceback.print_exc()
        rep.violation("check-crashed", {"trace": traceback.format_exc()[-3000:]}, found_input=False)
    return rep.finish()


if __name__ == "__main__":
    sys.exit(main())
