#!/usr/bin/env python3
"""/verif/check.py <ID> [--tier quick|thorough] [--replay FILE]
Decides one property against /repo's current working tree.  See DESIGN.md §7."""
import argparse
import importlib
import os
import sys
import traceback

sys.path.insert(0, os.path.dirname(os.path.abspath(__file__)))
from vlib import core


def main():
    ap = argparse.ArgumentParser()
    ap.add_argument("prop")
    ap.add_argument("--tier", default=os.environ.get("VERIF_TIER", "quick"))
    ap.add_argument("--replay", default=None)
    ap.add_argument("--no-build", action="store_true")
    a = ap.parse_args()
    seed = int(os.environ.get("VERIF_SEED", "0") or 0)
    pid = a.prop.upper()
    mod = importlib.import_module(f"vlib.{pid.lower()}")
    rep = core.Report(pid, mod.LEVEL, a.tier, seed)
    try:
        if not a.no_build:
            ok, msg = core.build_harness()
            if not ok:
                rep.violation("harness-build-failed", {"output": msg}, found_input=False)
                return rep.finish()
            ok, msg = core.build_lean(("bbdriver",))
            if not ok:
                rep.violation("lean-build-failed", {"output": msg}, found_input=False)
                return rep.finish()
        mod.check(rep, a.tier, seed, a.replay)
    except Exception:
        traceback.print_exc()
        rep.violation("check-crashed", {"trace": traceback.format_exc()[-3000:]}, found_input=False)
    return rep.finish()


if __name__ == "__main__":
    sys.exit(main())
