// harness ops for macros.rs: the real MacroProg objects, queried through the GetInstr trait.
//
//   mq   <states> <colors> <spec> <slots> | prog
//   mq2  <states> <colors> <spec> <slotsA> <slotsB> | prog
//   mrun <states> <colors> <spec> <n> | prog
//
//   spec  = `kind:cells(,kind:cells)?`, innermost first, kind = block | back
//   slots = `s,c;s,c;...` or `-` for none
use crate::instrs::{CompProg, GetInstr, Instr, Params, Parse as _, Slot};
use crate::macros::{make_backsymbol_macro, make_block_macro};
use crate::tape::BasicTape;

#[derive(Clone, Copy, PartialEq, Eq)]
enum Kind {
    Block,
    Back,
}

thread_local! {
    // "proper" nesting: the outer macro is built with the inner macro's own params()
    // (spec levels separated by '+'); with ',' every level gets the BASE params, as the
    // repository's own tests do.
    static PROPER: std::cell::Cell<bool> = const { std::cell::Cell::new(false) };
}

fn parse_spec(s: &str) -> Option<Vec<(Kind, usize)>> {
    PROPER.with(|p| p.set(s.contains('+')));
    s.split([',', '+'])
        .map(|lv| {
            let (k, n) = lv.split_once(':')?;
            let n: usize = n.parse().ok()?;
            match k {
                "block" => Some((Kind::Block, n)),
                "back" => Some((Kind::Back, n)),
                _ => None,
            }
        })
        .collect()
}

fn parse_slots(s: &str) -> Option<Vec<Slot>> {
    if s == "-" || s.is_empty() {
        return Some(vec![]);
    }
    s.split(';')
        .map(|p| {
            let (a, b) = p.split_once(',')?;
            Some((a.parse().ok()?, b.parse().ok()?))
        })
        .collect()
}

fn show_answer(a: Option<Instr>) -> String {
    match a {
        None => "none".to_owned(),
        Some((pr, sh, tr)) => format!("{pr},{},{tr}", u8::from(sh)),
    }
}

fn show_answers(l: &[Option<Instr>]) -> String {
    l.iter().map(|a| show_answer(*a)).collect::<Vec<_>>().join(";")
}

fn answers<P: GetInstr>(p: &P, slots: &[Slot]) -> String {
    let out: Vec<Option<Instr>> =
        slots.iter().map(|s| p.get_instr(s)).collect();
    show_answers(&out)
}

fn answers2<P: GetInstr, Q: GetInstr>(
    a: &P,
    b: &Q,
    sa: &[Slot],
    sb: &[Slot],
) -> String {
    let mut oa = vec![];
    let mut ob = vec![];
    for i in 0..sa.len().max(sb.len()) {
        if let Some(s) = sa.get(i) {
            oa.push(a.get_instr(s));
        }
        if let Some(s) = sb.get(i) {
            ob.push(b.get_instr(s));
        }
    }
    format!("{} # {}", show_answers(&oa), show_answers(&ob))
}

// run_for_infrul (machine.rs) minus the prover, with the step count of run_quick_machine
fn mrun<P: GetInstr>(comp: &P, n: u64) -> String {
    let mut tape = BasicTape::init(0);
    let mut state = 0;
    let mut steps: u64 = 0;
    let mut trace: Vec<String> = vec![];
    let mut stop: Option<String> = None;

    for _cycle in 0..n {
        trace.push(format!("{state};{tape};{steps}"));

        let slot = (state, tape.scan);

        let Some((color, shift, next_state)) = comp.get_instr(&slot)
        else {
            stop = Some(format!("undfnd({},{})", slot.0, slot.1));
            break;
        };

        let same = state == next_state;

        if same && tape.at_edge(shift) {
            stop = Some("spnout".to_owned());
            break;
        }

        let stepped = tape.step(shift, color, same);

        steps += stepped;

        state = next_state;
    }

    let stop = match stop {
        Some(s) => s,
        None => {
            trace.push(format!("{state};{tape};{steps}"));
            "limit".to_owned()
        },
    };

    format!("{} => {stop}", trace.join("/"))
}

// Build two fresh objects `$a`, `$b` of the chain `$spec` over `$comp` and evaluate `$body`.
macro_rules! with_chain {
    ($comp:expr, $params:expr, $spec:expr, $a:ident, $b:ident, $body:expr) => {{
        let comp: &CompProg = $comp;
        let params: Params = $params;
        match $spec.as_slice() {
            [(Kind::Block, k)] => {
                let $a = make_block_macro(comp, params, *k);
                let $b = make_block_macro(comp, params, *k);
                Some($body)
            },
            [(Kind::Back, k)] => {
                let $a = make_backsymbol_macro(comp, params, *k);
                let $b = make_backsymbol_macro(comp, params, *k);
                Some($body)
            },
            [(Kind::Block, k1), (Kind::Block, k2)] => {
                let ia = make_block_macro(comp, params, *k1);
                let ib = make_block_macro(comp, params, *k1);
                let $a = make_block_macro(&ia, if PROPER.with(|p| p.get()) { ia.params() } else { params }, *k2);
                let $b = make_block_macro(&ib, if PROPER.with(|p| p.get()) { ib.params() } else { params }, *k2);
                Some($body)
            },
            [(Kind::Block, k1), (Kind::Back, k2)] => {
                let ia = make_block_macro(comp, params, *k1);
                let ib = make_block_macro(comp, params, *k1);
                let $a = make_backsymbol_macro(&ia, if PROPER.with(|p| p.get()) { ia.params() } else { params }, *k2);
                let $b = make_backsymbol_macro(&ib, if PROPER.with(|p| p.get()) { ib.params() } else { params }, *k2);
                Some($body)
            },
            [(Kind::Back, k1), (Kind::Block, k2)] => {
                let ia = make_backsymbol_macro(comp, params, *k1);
                let ib = make_backsymbol_macro(comp, params, *k1);
                let $a = make_block_macro(&ia, if PROPER.with(|p| p.get()) { ia.params() } else { params }, *k2);
                let $b = make_block_macro(&ib, if PROPER.with(|p| p.get()) { ib.params() } else { params }, *k2);
                Some($body)
            },
            [(Kind::Back, k1), (Kind::Back, k2)] => {
                let ia = make_backsymbol_macro(comp, params, *k1);
                let ib = make_backsymbol_macro(comp, params, *k1);
                let $a = make_backsymbol_macro(&ia, if PROPER.with(|p| p.get()) { ia.params() } else { params }, *k2);
                let $b = make_backsymbol_macro(&ib, if PROPER.with(|p| p.get()) { ib.params() } else { params }, *k2);
                Some($body)
            },
            _ => None,
        }
    }};
}

const BAD: &str = "BAD-ARGS";

pub fn handle(op: &str, args: &[&str], text: &str) -> Option<String> {
    match (op, args) {
        ("mq", [st, co, spec, slots]) => {
            let comp = CompProg::from_str(text);
            let (Ok(st), Ok(co), Some(spec), Some(slots)) = (
                st.parse::<u64>(),
                co.parse::<u64>(),
                parse_spec(spec),
                parse_slots(slots),
            ) else {
                return Some(BAD.to_owned());
            };
            let r = with_chain!(&comp, (st, co), spec, a, _b, answers(&a, &slots));
            Some(r.unwrap_or_else(|| BAD.to_owned()))
        },
        ("mq2", [st, co, spec, sa, sb]) => {
            let comp = CompProg::from_str(text);
            let (Ok(st), Ok(co), Some(spec), Some(sa), Some(sb)) = (
                st.parse::<u64>(),
                co.parse::<u64>(),
                parse_spec(spec),
                parse_slots(sa),
                parse_slots(sb),
            ) else {
                return Some(BAD.to_owned());
            };
            let r = with_chain!(&comp, (st, co), spec, a, b, answers2(&a, &b, &sa, &sb));
            Some(r.unwrap_or_else(|| BAD.to_owned()))
        },
        ("mrun", [st, co, spec, n]) => {
            let comp = CompProg::from_str(text);
            let (Ok(st), Ok(co), Some(spec), Ok(n)) = (
                st.parse::<u64>(),
                co.parse::<u64>(),
                parse_spec(spec),
                n.parse::<u64>(),
            ) else {
                return Some(BAD.to_owned());
            };
            let r = with_chain!(&comp, (st, co), spec, a, _b, mrun(&a, n));
            Some(r.unwrap_or_else(|| BAD.to_owned()))
        },
        _ => None,
    }
}
