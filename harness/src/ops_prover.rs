// harness ops for the prover (C02 / C03): machine::run_prover with the guarded hooks.
//
//   runprover <lim> | prog     machine::run_prover(prog, lim), printed with ops::show_result:
//                              `<kind> steps= cycles= marks= rulapp= blanks=<q:n,..> last=<q,c|->`
//                              (a panic is mapped by run_line: `limit:overflow` when the message
//                              contains "overflow", `PANIC` otherwise)
//   ptrace <lim> <n> | prog    run_prover with the on_rule hook on; the result line (or
//                              `limit:overflow` / `PANIC`), then the first n rule applications of the
//                              main loop `<cycle>;<state>;<tape before>;<tape after>;<times>`,
//                              everything joined by " # "

fn num<T: std::str::FromStr>(s: &str) -> T
where
    T::Err: std::fmt::Debug,
{
    s.parse::<T>().unwrap()
}

fn panic_kind(payload: &(dyn std::any::Any + Send)) -> String {
    let msg = if let Some(s) = payload.downcast_ref::<&str>() {
        (*s).to_owned()
    } else if let Some(s) = payload.downcast_ref::<String>() {
        s.clone()
    } else {
        String::new()
    };

    if msg.contains("overflow") {
        "limit:overflow".to_owned()
    } else {
        "PANIC".to_owned()
    }
}

pub fn handle(op: &str, args: &[&str], text: &str) -> Option<String> {
    match (op, args) {
        ("runprover", [lim]) => Some(crate::ops::show_result(
            &crate::machine::run_prover(text, num(lim)),
        )),
        ("ptrace", [lim, nrules]) => {
            let lim: u64 = num(lim);
            let n: usize = num(nrules);

            crate::verif_hook::start(0);
            let r = std::panic::catch_unwind(|| crate::machine::run_prover(text, lim));
            let (_, rules) = crate::verif_hook::stop();

            let head = match r {
                Ok(r) => crate::ops::show_result(&r),
                Err(payload) => panic_kind(payload.as_ref()),
            };

            let mut parts = vec![head];
            parts.extend(rules.into_iter().take(n));

            Some(parts.join(" # "))
        },
        _ => None,
    }
}
