// Thread-local sink for the guarded callbacks in /repo/src/machine.rs.
use std::cell::RefCell;

use crate::instrs::State;
use crate::tape::{BasicTape, Count};

pub struct Sink {
    pub on: bool,
    pub cycles: Vec<String>,
    pub rules: Vec<String>,
    pub max_cycles: usize,
}

thread_local! {
    pub static SINK: RefCell<Sink> = RefCell::new(Sink { on: false, cycles: vec![], rules: vec![], max_cycles: 0 });
}

pub fn start(max_cycles: usize) {
    SINK.with(|s| {
        let mut s = s.borrow_mut();
        s.on = true;
        s.cycles.clear();
        s.rules.clear();
        s.max_cycles = max_cycles;
    });
}

pub fn stop() -> (Vec<String>, Vec<String>) {
    SINK.with(|s| {
        let mut s = s.borrow_mut();
        s.on = false;
        (std::mem::take(&mut s.cycles), std::mem::take(&mut s.rules))
    })
}

pub fn on_cycle(cycle: u64, state: State, tape: &BasicTape, steps: u64) {
    SINK.with(|s| {
        let mut s = s.borrow_mut();
        if s.on && s.cycles.len() < s.max_cycles {
            s.cycles.push(format!("{state};{tape};{steps}"));
        }
    });
}

pub fn on_rule(
    cycle: u64,
    state: State,
    before: &BasicTape,
    after: &BasicTape,
    times: Count,
) {
    SINK.with(|s| {
        let mut s = s.borrow_mut();
        if s.on {
            s.rules.push(format!("{cycle};{state};{before};{after};{times}"));
        }
    });
}
