// harness ops for segment.rs (C05): the string wrappers of wrappers.rs and the trait API with
// explicit params.
//
//   seg_halt <segs> | prog        wrappers::py_segment_cant_halt(prog, segs)
//   seg_blank <segs> | prog       wrappers::py_segment_cant_blank(prog, segs)
//   seg_spin_out <segs> | prog    wrappers::py_segment_cant_spin_out(prog, segs)
//   segp_halt <states> <colors> <segs> | prog       CompProg::from_str(prog).seg_cant_halt((states, colors), segs)
//   segp_blank ... / segp_spin_out ...              likewise
//
// output: halt | blank | repeat | spinout | depth_limit | segment_limit | refuted(<step>)
use crate::instrs::{CompProg, Parse as _};
use crate::segment::{Segment as _, SegmentResult as SegRs};
use crate::wrappers::{self, SegmentResult as SegPy};

fn num<T: std::str::FromStr>(s: &str) -> T
where
    T::Err: std::fmt::Debug,
{
    s.parse::<T>().unwrap()
}

fn show_py(r: &SegPy) -> String {
    match r {
        SegPy::halt {} => "halt".to_owned(),
        SegPy::blank {} => "blank".to_owned(),
        SegPy::repeat {} => "repeat".to_owned(),
        SegPy::spinout {} => "spinout".to_owned(),
        SegPy::depth_limit {} => "depth_limit".to_owned(),
        SegPy::segment_limit {} => "segment_limit".to_owned(),
        SegPy::refuted { step } => format!("refuted({step})"),
    }
}

fn show_rs(r: &SegRs) -> String {
    match r {
        SegRs::Halt => "halt".to_owned(),
        SegRs::Blank => "blank".to_owned(),
        SegRs::Repeat => "repeat".to_owned(),
        SegRs::Spinout => "spinout".to_owned(),
        SegRs::DepthLimit => "depth_limit".to_owned(),
        SegRs::SegmentLimit => "segment_limit".to_owned(),
        SegRs::Refuted(step) => format!("refuted({step})"),
    }
}

pub fn handle(op: &str, args: &[&str], text: &str) -> Option<String> {
    match (op, args) {
        ("seg_halt", [segs]) => {
            Some(show_py(&wrappers::py_segment_cant_halt(text, num(segs))))
        },
        ("seg_blank", [segs]) => {
            Some(show_py(&wrappers::py_segment_cant_blank(text, num(segs))))
        },
        ("seg_spin_out", [segs]) => {
            Some(show_py(&wrappers::py_segment_cant_spin_out(text, num(segs))))
        },
        ("segp_halt", [states, colors, segs]) => Some(show_rs(
            &CompProg::from_str(text)
                .seg_cant_halt((num(states), num(colors)), num(segs)),
        )),
        ("segp_blank", [states, colors, segs]) => Some(show_rs(
            &CompProg::from_str(text)
                .seg_cant_blank((num(states), num(colors)), num(segs)),
        )),
        ("segp_spin_out", [states, colors, segs]) => Some(show_rs(
            &CompProg::from_str(text)
                .seg_cant_spin_out((num(states), num(colors)), num(segs)),
        )),
        _ => None,
    }
}
