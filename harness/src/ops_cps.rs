// harness ops for cps.rs and graph.rs: the real code through the wrappers.rs entry points
use crate::wrappers::{
    py_cps_cant_blank, py_cps_cant_halt, py_cps_cant_spin_out, py_is_connected,
};

pub fn handle(op: &str, args: &[&str], text: &str) -> Option<String> {
    match (op, args) {
        ("cps_halt", [rad]) => {
            Some(py_cps_cant_halt(text, rad.parse::<usize>().unwrap()).to_string())
        },
        ("cps_blank", [rad]) => {
            Some(py_cps_cant_blank(text, rad.parse::<usize>().unwrap()).to_string())
        },
        ("cps_spin_out", [rad]) => {
            Some(py_cps_cant_spin_out(text, rad.parse::<usize>().unwrap()).to_string())
        },
        ("connected", [states]) => {
            Some(py_is_connected(text, states.parse::<u64>().unwrap()).to_string())
        },
        _ => None,
    }
}
