// harness ops for C17 (Python and Rust simulators agree): the Rust side of the comparison.
//
//   runprover17 <lim> | prog   machine::run_prover(prog, lim) -- the function the Python package
//                              re-exports as tm.machine.run_prover -- printed with ops::show_result:
//                              `<kind> steps= cycles= marks= rulapp= blanks=<q:n,..> last=<q,c|->`
//                              (overflow-checked build: an arithmetic overflow prints `limit:overflow`)
//   tapeopsx <toks>            like `tapeops`, with assignments between the steps.  toks = comma
//                              separated: `<L|R><colour digit><s|n>` (Tape::step), `s=<colour>`
//                              (the pub field `scan`), `cl<pos>=<val>` / `cr<pos>=<val>`
//                              (IndexTape::set_count; ignored when pos is out of range).
//                              After a step `<stepped>:<obs>`, after an assignment `-:<obs>`.
//   ptrace17 <lim> <n> | prog  run_prover with the rule hook on: `<result line> # <cycle>;<state>;<tape before>;
//                              <tape after>;<times> # ...` for the first n rule applications (diagnosis)
//   treelist17 <states> <colors> <halt 0|1> <steps> <stride> <offset>
//                              wrappers::tree_progs((states, colors), halt, steps): the leaves of the
//                              tree generator, sorted (the generator is parallel), every stride-th
//                              from offset; prints `<total>;<prog>;<prog>;...`
use crate::tape::{BasicTape, IndexTape as _};

fn num<T: std::str::FromStr>(s: &str) -> T
where
    T::Err: std::fmt::Debug,
{
    s.parse::<T>().unwrap()
}

fn run_tok(tape: &mut BasicTape, tok: &str) -> String {
    let cs: Vec<char> = tok.chars().collect();

    if cs.len() == 3 && cs[0] == 's' && cs[1] == '=' {
        tape.scan = (cs[2] as u64) - 48;
        return "-".to_owned();
    }

    if cs.len() >= 2 && cs[0] == 'c' {
        let rest: String = cs[2..].iter().collect();
        let parts: Vec<&str> = rest.split('=').collect();
        if parts.len() != 2 {
            return "?".to_owned();
        }
        let pos: usize = num(parts[0]);
        let val: u64 = num(parts[1]);
        let side = cs[1] == 'r';
        let (l_len, r_len) = tape.span_lens();
        if pos < (if side { r_len } else { l_len }) {
            tape.set_count(&(side, pos), val);
        }
        return "-".to_owned();
    }

    if cs.len() == 3 {
        let k = tape.step(cs[0] == 'R', (cs[1] as u64) - 48, cs[2] == 's');
        return k.to_string();
    }

    "?".to_owned()
}

pub fn handle(op: &str, args: &[&str], text: &str) -> Option<String> {
    match (op, args) {
        ("runprover17", [lim]) => Some(crate::ops::show_result(
            &crate::machine::run_prover(text, num(lim)),
        )),
        ("tapeopsx", [toks]) => {
            let mut tape = BasicTape::init(0);
            let mut outs = vec![];
            for tok in toks.split(',') {
                let k = run_tok(&mut tape, tok);
                outs.push(format!("{k}:{}", crate::ops::show_obs(&tape)));
            }
            Some(outs.join(" # "))
        },
        ("ptrace17", [lim, nrules]) => {
            let n: usize = num(nrules);
            crate::verif_hook::start(0);
            let r = std::panic::catch_unwind(|| crate::machine::run_prover(text, num(lim)));
            let (_, rules) = crate::verif_hook::stop();
            let head = match r {
                Ok(r) => crate::ops::show_result(&r),
                Err(_) => "PANIC".to_owned(),
            };
            Some(format!(
                "{head} # {}",
                rules.iter().take(n).cloned().collect::<Vec<_>>().join(" # ")
            ))
        },
        ("treelist17", [states, colors, halt, steps, stride, offset]) => {
            let mut progs = crate::wrappers::tree_progs(
                (num(states), num(colors)),
                *halt == "1",
                num(steps),
            );
            progs.sort();
            let stride: usize = num(stride);
            let offset: usize = num(offset);
            Some(format!(
                "{};{}",
                progs.len(),
                progs
                    .iter()
                    .skip(offset % stride.max(1))
                    .step_by(stride.max(1))
                    .cloned()
                    .collect::<Vec<_>>()
                    .join(";")
            ))
        },
        _ => None,
    }
}
