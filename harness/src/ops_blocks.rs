// harness ops for blocks.rs: the real opt_block
use crate::{blocks::opt_block, instrs::{CompProg, Parse as _}};

pub fn handle(op: &str, args: &[&str], text: &str) -> Option<String> {
    match (op, args) {
        ("optblock", [steps]) => {
            let comp = CompProg::from_str(text);
            Some(opt_block(&comp, steps.parse::<usize>().unwrap()).to_string())
        },
        _ => None,
    }
}
