// harness ops for tree.rs (C10).  No program text; all arguments are u64 decimal.
//
//   treelist <states> <colors> <halt 0|1> <steps>   wrappers::tree_progs on the ambient (global)
//                                                   rayon pool; programs sorted, `;`-joined
//   treecount <states> <colors> <halt> <steps>      `<n> <number of distinct programs>`
//   treeseq <states> <colors> <halt> <steps>        tree_progs under a 1-thread rayon pool, in
//                                                   emission order, `;`-joined
//   treethreads <threads> <states> <colors> <halt> <steps>   tree_progs under a pool with that
//                                                   many threads; sorted, `;`-joined
//   treehash <states> <colors> <halt> <steps>       build_tree with a harvester that keeps
//                                                   (count, wrapping sum, xor) of the FNV-1a-64
//                                                   hashes of `show(Some(params))` under a Mutex:
//                                                   `<n> <sum hex16> <xor hex16>`
//
//   treethreadshash <threads> <states> <colors> <halt> <steps>   `treehash` under a pool with
//                                                   that many threads (harness only)
//
// `tree_progs` is the collecting harvester of wrappers.rs: every program handed to the harvester is
// pushed (as `show(Some(params))`) under a Mutex, duplicates preserved.
use crate::instrs::Parse as _;
use crate::tree::{access, build_tree, get_val, set_val};
use crate::wrappers;

fn num(s: &str) -> u64 {
    s.parse::<u64>().unwrap()
}

fn progs_in_pool(threads: usize, s: &str, c: &str, h: &str, l: &str) -> Vec<String> {
    let (s, c, h, l) = (num(s), num(c), num(h) != 0, num(l));
    rayon::ThreadPoolBuilder::new()
        .num_threads(threads)
        .build()
        .unwrap()
        .install(|| wrappers::tree_progs((s, c), h, l))
}

fn fnv(s: &str) -> u64 {
    s.bytes().fold(0xcbf2_9ce4_8422_2325_u64, |h, b| {
        (h ^ u64::from(b)).wrapping_mul(0x0100_0000_01b3)
    })
}

pub fn handle(op: &str, args: &[&str], _text: &str) -> Option<String> {
    match (op, args) {
        ("treelist", [s, c, h, l]) => {
            let mut progs =
                wrappers::tree_progs((num(s), num(c)), num(h) != 0, num(l));
            progs.sort();
            Some(progs.join(";"))
        },
        ("treecount", [s, c, h, l]) => {
            let mut progs =
                wrappers::tree_progs((num(s), num(c)), num(h) != 0, num(l));
            progs.sort();
            let n = progs.len();
            progs.dedup();
            Some(format!("{n} {}", progs.len()))
        },
        ("treeseq", [s, c, h, l]) => Some(progs_in_pool(1, s, c, h, l).join(";")),
        ("treethreads", [t, s, c, h, l]) => {
            let mut progs = progs_in_pool(num(t) as usize, s, c, h, l);
            progs.sort();
            Some(progs.join(";"))
        },
        ("treehash", [s, c, h, l]) => {
            let params = (num(s), num(c));
            let acc = set_val((0_u64, 0_u64, 0_u64));
            build_tree(params, num(h) != 0, num(l), &|comp| {
                let x = fnv(&comp.show(Some(params)));
                let mut a = access(&acc);
                a.0 += 1;
                a.1 = a.1.wrapping_add(x);
                a.2 ^= x;
            });
            let (n, sum, xor) = get_val(acc);
            Some(format!("{n} {sum:016x} {xor:016x}"))
        },
        ("treehashtask", [s, c, h, l, i]) => {
            // the sub-tree under the i-th second instruction (the instruction the generator puts
            // at slot B0; order: colour, then shift L before R, then state - tree.rs make_instrs):
            // the whole tree is generated, only that sub-tree's programs are hashed
            let params = (num(s), num(c));
            let (ms, mc) = (num(s).min(3), num(c).min(3));
            let idx = num(i);
            let per_color = 2 * ms;
            if idx >= mc * per_color {
                return Some("BAD-ARGS".to_owned());
            }
            let want = (idx / per_color, (idx % per_color) / ms == 1, idx % ms);
            let acc = set_val((0_u64, 0_u64, 0_u64));
            build_tree(params, num(h) != 0, num(l), &|comp| {
                if comp.get(&(1, 0)) == Some(&want) {
                    let x = fnv(&comp.show(Some(params)));
                    let mut a = access(&acc);
                    a.0 += 1;
                    a.1 = a.1.wrapping_add(x);
                    a.2 ^= x;
                }
            });
            let (n, sum, xor) = get_val(acc);
            Some(format!("{n} {sum:016x} {xor:016x}"))
        },
        ("treelisttask", [s, c, h, l, i]) => {
            // the programs of that sub-tree, `;`-joined (search side only)
            let params = (num(s), num(c));
            let (ms, mc) = (num(s).min(3), num(c).min(3));
            let idx = num(i);
            let per_color = 2 * ms;
            if idx >= mc * per_color {
                return Some("BAD-ARGS".to_owned());
            }
            let want = (idx / per_color, (idx % per_color) / ms == 1, idx % ms);
            let acc = set_val(Vec::<String>::new());
            build_tree(params, num(h) != 0, num(l), &|comp| {
                if comp.get(&(1, 0)) == Some(&want) {
                    access(&acc).push(comp.show(Some(params)));
                }
            });
            Some(get_val(acc).join(";"))
        },
        ("treethreadshash", [t, s, c, h, l]) => {
            // the same harvest as `treehash`, under a pool with that many threads
            let params = (num(s), num(c));
            let (hh, ll) = (num(h) != 0, num(l));
            let acc = set_val((0_u64, 0_u64, 0_u64));
            rayon::ThreadPoolBuilder::new()
                .num_threads(num(t) as usize)
                .build()
                .unwrap()
                .install(|| {
                    build_tree(params, hh, ll, &|comp| {
                        let x = fnv(&comp.show(Some(params)));
                        let mut a = access(&acc);
                        a.0 += 1;
                        a.1 = a.1.wrapping_add(x);
                        a.2 ^= x;
                    });
                });
            let (n, sum, xor) = get_val(acc);
            Some(format!("{n} {sum:016x} {xor:016x}"))
        },
        _ => None,
    }
}
