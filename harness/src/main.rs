// Correspondence harness: the real sources of /repo are compiled into this binary by path,
// so every build is a rebuild from /repo's current working tree.
#![allow(warnings)]
#![allow(clippy::all)]

#[path = "/repo/src/blocks.rs"]
mod blocks;
#[path = "/repo/src/cps.rs"]
mod cps;
#[path = "/repo/src/graph.rs"]
mod graph;
#[path = "/repo/src/instrs.rs"]
mod instrs;
#[path = "/repo/src/machine.rs"]
mod machine;
#[path = "/repo/src/macros.rs"]
mod macros;
#[path = "/repo/src/prover.rs"]
mod prover;
#[path = "/repo/src/reason.rs"]
mod reason;
#[path = "/repo/src/rules.rs"]
mod rules;
#[path = "/repo/src/segment.rs"]
mod segment;
#[path = "/repo/src/tape.rs"]
mod tape;
#[path = "/repo/src/tree.rs"]
mod tree;
#[path = "/repo/src/wrappers.rs"]
mod wrappers;

mod ops;
#[cfg(not(no_ops_blocks))]
mod ops_blocks;
#[cfg(not(no_ops_cps))]
mod ops_cps;
#[cfg(not(no_ops_macros))]
mod ops_macros;
#[cfg(not(no_ops_prover))]
mod ops_prover;
#[cfg(not(no_ops_py))]
mod ops_py;
#[cfg(not(no_ops_reason))]
mod ops_reason;
#[cfg(not(no_ops_rules))]
mod ops_rules;
#[cfg(not(no_ops_segment))]
mod ops_segment;
#[cfg(not(no_ops_tree))]
mod ops_tree;
mod verif_hook;

use rayon::prelude::*;
use std::io::{self, BufRead, Write};
use std::panic;

fn run_line(line: &str) -> String {
    let (head, text) = match line.find(" | ") {
        Some(i) => (&line[..i], &line[i + 3..]),
        None => (line, ""),
    };
    let mut parts = head.split(' ');
    let op = parts.next().unwrap_or("");
    let args: Vec<&str> = parts.collect();

    let res = panic::catch_unwind(|| ops::handle(op, &args, text));

    match res {
        Ok(s) => s,
        Err(payload) => {
            let msg = if let Some(s) = payload.downcast_ref::<&str>() {
                (*s).to_owned()
            } else if let Some(s) = payload.downcast_ref::<String>() {
                s.clone()
            } else {
                String::new()
            };
            if msg.contains("overflow") {
                "limit:overflow".to_owned()
            } else {
                "PANIC".to_owned()
            }
        },
    }
}

fn main() {
    panic::set_hook(Box::new(|_| {}));

    let stdin = io::stdin();
    let lines: Vec<String> =
        stdin.lock().lines().map(|l| l.unwrap()).collect();

    let seq = std::env::var("BBH_SEQ").is_ok();

    let outs: Vec<String> = if seq {
        lines.iter().map(|l| run_line(l)).collect()
    } else {
        lines.par_iter().map(|l| run_line(l)).collect()
    };

    let stdout = io::stdout();
    let mut w = io::BufWriter::new(stdout.lock());
    for o in outs {
        writeln!(w, "{o}").unwrap();
    }
    w.flush().unwrap();
}
