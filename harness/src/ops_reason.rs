// harness ops for reason.rs (the backward reasoner), entered through the string API of
// wrappers.rs:
//   cant_halt <depth> | prog      cant_blank <depth> | prog      cant_spin_out <depth> | prog
// output: refuted(<step>) | init | linrec | spinout | step_limit | depth_limit
// (a panic of the real code is turned into PANIC by run_line in main.rs)
use crate::wrappers::{
    py_cant_blank, py_cant_halt, py_cant_spin_out, BackwardResult,
};

fn show_backward(r: &BackwardResult) -> String {
    match r {
        BackwardResult::refuted { step } => format!("refuted({step})"),
        BackwardResult::init {} => "init".to_owned(),
        BackwardResult::linrec {} => "linrec".to_owned(),
        BackwardResult::spinout {} => "spinout".to_owned(),
        BackwardResult::step_limit {} => "step_limit".to_owned(),
        BackwardResult::depth_limit {} => "depth_limit".to_owned(),
    }
}

pub fn handle(op: &str, args: &[&str], text: &str) -> Option<String> {
    let run: fn(&str, usize) -> BackwardResult = match op {
        "cant_halt" => py_cant_halt,
        "cant_blank" => py_cant_blank,
        "cant_spin_out" => py_cant_spin_out,
        _ => return None,
    };

    let [depth] = args else {
        return None;
    };

    let depth: usize = depth.parse().unwrap();

    Some(show_backward(&run(text, depth)))
}
