use crate::instrs::{CompProg, Parse as _, Slot};
use crate::machine::{self, MachineResult, RecRes, TermRes};
use crate::tape::{BasicTape, ColorCount, GetSig as _, Signature};
use crate::verif_hook;

fn show_slot_opt(s: Option<Slot>) -> String {
    match s {
        None => "-".to_owned(),
        Some((q, c)) => format!("{q},{c}"),
    }
}

fn show_list<T: ToString>(l: &[T]) -> String {
    l.iter().map(ToString::to_string).collect::<Vec<_>>().join(",")
}

pub fn show_result(r: &MachineResult) -> String {
    let res = match r.result {
        TermRes::xlimit => "xlimit",
        TermRes::cfglim => "cfglim",
        TermRes::infrul => "infrul",
        TermRes::spnout => "spnout",
        TermRes::undfnd => "undfnd",
        TermRes::mulrul => "mulrul",
    };
    let blanks = r
        .blanks
        .iter()
        .map(|(q, n)| format!("{q}:{n}"))
        .collect::<Vec<_>>()
        .join(",");
    format!(
        "{res} steps={} cycles={} marks={} rulapp={} blanks={blanks} last={}",
        r.steps,
        r.cycles,
        r.marks,
        r.rulapp,
        show_slot_opt(r.last_slot)
    )
}

fn show_cc(cc: &ColorCount) -> String {
    match cc {
        ColorCount::Just(c) => format!("[{c}]"),
        ColorCount::Mult(c) => format!("{c}"),
    }
}

fn show_sig(s: &Signature) -> String {
    format!(
        "{}|{}|{}",
        s.scan,
        s.lspan.iter().map(show_cc).collect::<Vec<_>>().join(","),
        s.rspan.iter().map(show_cc).collect::<Vec<_>>().join(",")
    )
}

pub fn show_obs(t: &BasicTape) -> String {
    let (lc, rc) = t.counts();
    format!(
        "{t};m={};b={};eL={};eR={};n={};c={}/{};sig={};u={}",
        t.marks(),
        t.blank(),
        t.at_edge(false),
        t.at_edge(true),
        t.blocks(),
        show_list(&lc),
        show_list(&rc),
        show_sig(&t.signature()),
        show_list(&t.unroll())
    )
}

fn show_rec(r: &RecRes) -> String {
    match r {
        RecRes::Limit => "limit".to_owned(),
        RecRes::Recur => "recur".to_owned(),
        RecRes::Spinout => "spinout".to_owned(),
        RecRes::Undefined((q, c)) => format!("undefined({q},{c})"),
    }
}

fn show_slots(p: &CompProg) -> String {
    p.iter()
        .map(|(&(q, c), &(pr, sh, tr))| format!("{q},{c}={pr},{},{tr}", u8::from(sh)))
        .collect::<Vec<_>>()
        .join(";")
}

fn num<T: std::str::FromStr>(s: &str) -> T
where
    T::Err: std::fmt::Debug,
{
    s.parse::<T>().unwrap()
}

pub fn handle(op: &str, args: &[&str], text: &str) -> String {
    match (op, args) {
        ("parse", []) => crate::wrappers::show_comp(&crate::wrappers::tcompile(text), None),
        ("parsedims", [a, b]) => crate::wrappers::show_comp(
            &crate::wrappers::tcompile(text),
            Some((num(a), num(b))),
        ),
        ("runquick", [lim]) => show_result(&machine::run_quick_machine(text, num(lim))),
        ("qtrace", [n]) => {
            let n: usize = num(n);
            verif_hook::start(n + 1);
            let r = std::panic::catch_unwind(|| machine::run_quick_machine(text, (n + 1) as u64));
            let (cycles, _) = verif_hook::stop();
            if r.is_err() && cycles.is_empty() {
                return "PANIC".to_owned();
            }
            cycles.join("/")
        },
        ("rec", [lim]) => show_rec(&machine::quick_term_or_rec(
            &CompProg::from_str(text),
            num(lim),
        )),
        // the Python-facing wrapper (a Boolean: "recurs or spins out")
        ("recpy", [lim]) => {
            crate::wrappers::py_quick_term_or_rec(text, num(lim)).to_string()
        },
        ("tapeops", [ops]) => {
            let mut tape = BasicTape::init(0);
            let cs: Vec<char> = ops.chars().collect();
            let mut outs = vec![];
            for ch in cs.chunks(3) {
                if ch.len() < 3 {
                    break;
                }
                let k = tape.step(
                    ch[0] == 'R',
                    (ch[1] as u64) - 48,
                    ch[2] == 's',
                );
                outs.push(format!("{k}:{}", show_obs(&tape)));
            }
            outs.join(" # ")
        },
        ("sigcompat", [a, b]) => {
            // tape built by step sequence `a` against the signature of the tape built by `b`
            let build = |ops: &str| {
                let mut tape = BasicTape::init(0);
                let cs: Vec<char> = ops.chars().collect();
                for ch in cs.chunks(3) {
                    if ch.len() < 3 {
                        break;
                    }
                    tape.step(ch[0] == 'R', (ch[1] as u64) - 48, ch[2] == 's');
                }
                tape
            };
            let (ta, tb) = (build(a), build(b));
            format!("{}", ta.sig_compatible(&tb.signature()))
        },
        ("tapeopsh", [ops]) => {
            let mut tape = BasicTape::init(0);
            let cs: Vec<char> = ops.chars().collect();
            let mut h: u64 = 0xcbf29ce484222325;
            let mut n = 0u64;
            for ch in cs.chunks(3) {
                if ch.len() < 3 {
                    break;
                }
                let k = tape.step(ch[0] == 'R', (ch[1] as u64) - 48, ch[2] == 's');
                n += 1;
                for b in format!("{k}:{tape}|").bytes() {
                    h ^= u64::from(b);
                    h = h.wrapping_mul(0x100000001b3);
                }
            }
            format!("{n} {h:016x} {}", show_obs(&tape))
        },
        ("slots", []) => show_slots(&crate::wrappers::tcompile(text)),
        ("rt2", [a, b]) => {
            let t1 = crate::wrappers::tcompile(text);
            let shown = crate::wrappers::show_comp(&t1, Some((num(a), num(b))));
            show_slots(&crate::wrappers::tcompile(&shown))
        },
        ("tok", [kind]) => match *kind {
            "instr" => {
                let i = crate::instrs::read_instr(text);
                let shown = crate::instrs::show_instr(i);
                match i {
                    None => format!("none -> {shown}"),
                    Some((c, sh, st)) => format!("{c},{},{st} -> {shown}", u8::from(sh)),
                }
            },
            "slot" => {
                let (q, c) = crate::instrs::read_slot(text);
                format!("{q},{c} -> {}", crate::instrs::show_slot((q, c)))
            },
            "state" => {
                let ch = text.chars().next().unwrap();
                let q = crate::instrs::read_state(ch);
                format!("{q} -> {}", crate::instrs::show_state(Some(q)))
            },
            _ => "BAD-OP".to_owned(),
        },
        _ => {
            let hs: Vec<fn(&str, &[&str], &str) -> Option<String>> = vec![
                #[cfg(not(no_ops_reason))]
                crate::ops_reason::handle,
                #[cfg(not(no_ops_segment))]
                crate::ops_segment::handle,
                #[cfg(not(no_ops_cps))]
                crate::ops_cps::handle,
                #[cfg(not(no_ops_macros))]
                crate::ops_macros::handle,
                #[cfg(not(no_ops_rules))]
                crate::ops_rules::handle,
                #[cfg(not(no_ops_tree))]
                crate::ops_tree::handle,
                #[cfg(not(no_ops_py))]
                crate::ops_py::handle,
                #[cfg(not(no_ops_prover))]
                crate::ops_prover::handle,
                #[cfg(not(no_ops_blocks))]
                crate::ops_blocks::handle,
            ];
            for h in hs {
                if let Some(r) = h(op, args, text) {
                    return r;
                }
            }
            "BAD-OP".to_owned()
        },
    }
}
