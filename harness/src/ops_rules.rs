// harness ops for rules (filled in when the module is ported)
pub fn handle(_op: &str, _args: &[&str], _text: &str) -> Option<String> {
    None
}
