// harness ops for rules.rs (C11): make_rule, ApplyRule::{count_apps, apply_rule} on a real
// BasicTape.  The rule is space separated, so it occupies all the arguments after the tape.
//
//   mkrule <c1> <c2> <c3> <c4>      each <ci> = "l,l,l;r,r,r"      -> none | <rule>
//   countapps <tape> <rule>         -> none | <times>,<L|R>,<index>,<minres>
//   applyrule <tape> <rule>         -> <none|times> -> <tape after>
//
//   <tape> = <scan>|<colour>^<count>,...|<colour>^<count>,...   (left nearest first | right nearest first)
//   <rule> = "-" or entries "<L|R><index>:<op>", <op> = "+d" | "-d" | "*q+r" | "*q-r"
//
// The fields of `Tape` are private, so the tape is built through the public API only: the cells
// are laid down with `Tape::step` (one cell per block) and the counts are then written with
// `IndexTape::set_count`.  Shapes that stepping cannot produce (adjacent blocks of one colour,
// colour 0 in the farthest block of a side) give BAD-TAPE.  The tape is read back through
// `scan`, `signature()` (colours) and `counts()`.
use crate::instrs::Color;
use crate::rules::{make_rule, ApplyRule as _, Diff, Op, Rule};
use crate::tape::{
    BasicTape, ColorCount, Count, Counts, GetSig as _, Index, IndexTape as _,
};

fn digits(s: &str) -> bool {
    !s.is_empty() && s.bytes().all(|b| b.is_ascii_digit())
}

fn parse_u64(s: &str) -> Option<u64> {
    if digits(s) { s.parse::<u64>().ok() } else { None }
}

fn parse_list<T>(s: &str, f: impl Fn(&str) -> Option<T>) -> Option<Vec<T>> {
    if s.is_empty() {
        return Some(vec![]);
    }
    s.split(',').map(f).collect()
}

fn parse_counts(s: &str) -> Option<Counts> {
    let parts: Vec<&str> = s.split(';').collect();
    let [l, r] = parts[..] else { return None };
    Some((parse_list(l, parse_u64)?, parse_list(r, parse_u64)?))
}

fn parse_block(s: &str) -> Option<(Color, Count)> {
    let parts: Vec<&str> = s.split('^').collect();
    let [c, n] = parts[..] else { return None };
    Some((parse_u64(c)?, parse_u64(n)?))
}

struct TapeSpec {
    scan: Color,
    lspan: Vec<(Color, Count)>,
    rspan: Vec<(Color, Count)>,
}

fn parse_tape(s: &str) -> Option<TapeSpec> {
    let parts: Vec<&str> = s.split('|').collect();
    let [sc, l, r] = parts[..] else { return None };
    Some(TapeSpec {
        scan: parse_u64(sc)?,
        lspan: parse_list(l, parse_block)?,
        rspan: parse_list(r, parse_block)?,
    })
}

// sign character + digits, within i32
fn parse_signed(s: &str) -> Option<Diff> {
    let (neg, ds) = if let Some(ds) = s.strip_prefix('+') {
        (false, ds)
    } else if let Some(ds) = s.strip_prefix('-') {
        (true, ds)
    } else {
        return None;
    };
    if !digits(ds) {
        return None;
    }
    let n = ds.parse::<i128>().ok()?;
    Diff::try_from(if neg { -n } else { n }).ok()
}

fn parse_op(s: &str) -> Option<Op> {
    if let Some(rest) = s.strip_prefix('*') {
        let (neg, body) = match rest.strip_prefix('-') {
            Some(b) => (true, b),
            None => (false, rest),
        };
        let cut = body
            .bytes()
            .position(|b| !b.is_ascii_digit())
            .unwrap_or(body.len());
        let (qd, rd) = body.split_at(cut);
        let q = parse_signed(&format!("{}{qd}", if neg { "-" } else { "+" }))?;
        let r = parse_signed(rd)?;
        Some(Op::Mult((q, r)))
    } else {
        Some(Op::Plus(parse_signed(s)?))
    }
}

fn parse_entry(s: &str) -> Option<(Index, Op)> {
    let side = match s.as_bytes().first()? {
        b'L' => false,
        b'R' => true,
        _ => return None,
    };
    let rest = &s[1..];
    let colon = rest.find(':')?;
    let idx = usize::try_from(parse_u64(&rest[..colon])?).ok()?;
    let op = parse_op(&rest[colon + 1..])?;
    Some(((side, idx), op))
}

fn parse_rule(args: &[&str]) -> Option<Rule> {
    if args.is_empty() {
        return None;
    }
    if args == ["-"] {
        return Some(Rule::new());
    }
    let entries: Vec<(Index, Op)> =
        args.iter().map(|a| parse_entry(a)).collect::<Option<_>>()?;
    let mut rule = Rule::new();
    for (k, v) in entries {
        rule.insert(k, v);
    }
    Some(rule)
}

fn show_signed(d: Diff) -> String {
    format!("{d:+}")
}

fn show_op(op: &Op) -> String {
    match op {
        Op::Plus(d) => show_signed(*d),
        Op::Mult((q, r)) => format!("*{q}{}", show_signed(*r)),
    }
}

fn show_rule(rule: &Rule) -> String {
    if rule.is_empty() {
        return "-".to_owned();
    }
    rule.iter()
        .map(|(&(side, idx), op)| {
            format!("{}{idx}:{}", if side { "R" } else { "L" }, show_op(op))
        })
        .collect::<Vec<_>>()
        .join(" ")
}

fn cc_color(cc: &ColorCount) -> Color {
    match cc {
        ColorCount::Just(c) | ColorCount::Mult(c) => *c,
    }
}

fn show_tape(tape: &BasicTape) -> String {
    let sig = tape.signature();
    let (lc, rc) = tape.counts();
    let side = |ccs: &[ColorCount], counts: &[Count]| {
        ccs.iter()
            .zip(counts.iter())
            .map(|(cc, n)| format!("{}^{n}", cc_color(cc)))
            .collect::<Vec<_>>()
            .join(",")
    };
    format!(
        "{}|{}|{}",
        tape.scan,
        side(&sig.lspan, &lc),
        side(&sig.rspan, &rc)
    )
}

// Lay the cells  l[n-1] .. l[0] s r[0] .. r[m-1]  down from right to left (each leftward step
// prints one cell onto the right span), then walk right over the left part re-printing every
// cell, which moves it onto the left span.  Finally write the counts.
fn build_tape(spec: &TapeSpec) -> Option<BasicTape> {
    let mut tape = BasicTape::init(0);

    for &(c, _) in spec.rspan.iter().rev() {
        tape.step(false, c, false);
    }
    tape.step(false, spec.scan, false);
    for &(c, _) in &spec.lspan {
        tape.step(false, c, false);
    }

    // now: scan 0 (blank), everything on the right span
    tape.step(true, 0, false);
    for &(c, _) in spec.lspan.iter().rev() {
        tape.step(true, c, false);
    }

    // check the shape through the public observers
    let sig = tape.signature();
    let want_l: Vec<Color> = spec.lspan.iter().map(|b| b.0).collect();
    let want_r: Vec<Color> = spec.rspan.iter().map(|b| b.0).collect();
    let got_l: Vec<Color> = sig.lspan.iter().map(cc_color).collect();
    let got_r: Vec<Color> = sig.rspan.iter().map(cc_color).collect();
    if tape.scan != spec.scan
        || got_l != want_l
        || got_r != want_r
        || tape.span_lens() != (want_l.len(), want_r.len())
    {
        return None;
    }

    for (i, &(_, n)) in spec.lspan.iter().enumerate() {
        tape.set_count(&(false, i), n);
    }
    for (i, &(_, n)) in spec.rspan.iter().enumerate() {
        tape.set_count(&(true, i), n);
    }

    Some(tape)
}

fn with_tape_rule(
    tape: &str,
    rule: &[&str],
    f: impl FnOnce(BasicTape, Rule) -> String,
) -> String {
    let (Some(spec), Some(rule)) = (parse_tape(tape), parse_rule(rule)) else {
        return "BAD-ARG".to_owned();
    };
    match build_tape(&spec) {
        Some(t) => f(t, rule),
        None => "BAD-TAPE".to_owned(),
    }
}

pub fn handle(op: &str, args: &[&str], _text: &str) -> Option<String> {
    match (op, args) {
        ("mkrule", [a, b, c, d]) => {
            let (Some(a), Some(b), Some(c), Some(d)) = (
                parse_counts(a),
                parse_counts(b),
                parse_counts(c),
                parse_counts(d),
            ) else {
                return Some("BAD-ARG".to_owned());
            };
            Some(match make_rule(&a, &b, &c, &d) {
                None => "none".to_owned(),
                Some(rule) => show_rule(&rule),
            })
        },
        ("countapps", [tape, rule @ ..]) => {
            Some(with_tape_rule(tape, rule, |t, r| match t.count_apps(&r) {
                None => "none".to_owned(),
                Some((times, (side, idx), min_res)) => format!(
                    "{times},{},{idx},{min_res}",
                    if side { "R" } else { "L" }
                ),
            }))
        },
        ("applyrule", [tape, rule @ ..]) => {
            Some(with_tape_rule(tape, rule, |mut t, r| {
                let res = t.apply_rule(&r);
                let shown = show_tape(&t);
                match res {
                    None => format!("none -> {shown}"),
                    Some(times) => format!("{times} -> {shown}"),
                }
            }))
        },
        _ => None,
    }
}
